"""
Virtual-time asyncio event loop.

A subclass of asyncio.BaseEventLoop (so the real Task/Future/Queue/wait_for/shield/gather/
sleep machinery runs unmodified) whose clock advances only when nothing is ready: it jumps to
the earliest scheduled timer.  The clock value may be a symbolic real (symx.core.SymReal); all
comparisons between deadlines are then decided by the solver.

Differences to the stock loop (all part of every claim made with it):
  * computation takes zero time;
  * a timer due exactly "now" is run in the same iteration (the stock loop with a non-zero
    clock resolution does the same);
  * timers due at the same instant run in heapq order of their insertion history.
"""
from __future__ import annotations

import asyncio
import heapq
from asyncio import base_events


class Deadlock(Exception):
    pass


class VLoop(base_events.BaseEventLoop):
    def __init__(self, start=0.0):
        super().__init__()
        self._vtime = start
        self.latency_hook = None     # optional: callable(when) -> actual wake-up time >= when

    def time(self):
        return self._vtime

    def _process_events(self, event_list):
        pass

    def _write_to_self(self):
        pass

    def advance_to(self, when):
        """Move the clock forward (used by stubs modelling a blocking sleep)."""
        if when > self._vtime:
            self._vtime = when

    def _run_once(self):
        sched = self._scheduled
        while sched and sched[0]._cancelled:
            self._timer_cancelled_count -= 1
            h = heapq.heappop(sched)
            h._scheduled = False
        if not self._ready and not self._stopping:
            if not sched:
                raise Deadlock("virtual loop: nothing ready and nothing scheduled")
            when = sched[0]._when
            if self.latency_hook is not None:
                when = self.latency_hook(when)
            if when > self._vtime:
                self._vtime = when
        while sched:
            h = sched[0]
            if h._cancelled:
                self._timer_cancelled_count -= 1
                heapq.heappop(sched)
                h._scheduled = False
                continue
            if h._when > self._vtime:
                break
            heapq.heappop(sched)
            h._scheduled = False
            self._ready.append(h)
        for _ in range(len(self._ready)):
            h = self._ready.popleft()
            if not h._cancelled:
                h._run()
        h = None

    def live_timers(self):
        """Timer handles that will still run: scheduled ones and those already moved to the ready
        queue of the current iteration (due, callback not run yet); cancelled ones excluded."""
        import asyncio
        due = [h for h in self._ready if isinstance(h, asyncio.TimerHandle) and not h._cancelled]
        return due + [h for h in self._scheduled if not h._cancelled]


def run(coro, start=0.0, loop_out=None):
    """Run coro to completion on a fresh VLoop, close the loop afterwards."""
    loop = VLoop(start)
    if loop_out is not None:
        loop_out.append(loop)
    asyncio.set_event_loop(loop)
    try:
        return loop.run_until_complete(coro)
    finally:
        try:
            # cancel whatever is left so that nothing is garbage-collected while pending
            left = [t for t in asyncio.all_tasks(loop) if not t.done()]
            for t in left:
                t.cancel()
            if left:
                loop.run_until_complete(asyncio.gather(*left, return_exceptions=True))
        finally:
            asyncio.set_event_loop(None)
            loop.close()
