"""
Pure-Python stand-ins for datetime.time / date / datetime whose fields may be symbolic integers.

The C implementation of `datetime` normalises its arguments to exact ints, so symbolic fields
cannot travel through it.  These classes reproduce what edzed relies on: range validation
(ValueError), lexicographic comparison, attribute access, .time()/.date(), isoweekday() for
concrete dates.  A differential self-test (tools/selftest.py) compares them with the real classes.
"""
import datetime as _dt
from . import core
from .core import And_, Or_, Not_, eq_, is_sym

_DIM = [0, 31, 29, 31, 30, 31, 30, 31, 31, 30, 31, 30, 31]      # leap year table (edzed's dummy year 404 is leap)


def _chk(name, v, lo, hi):
    if not (lo <= v <= hi):         # forks when symbolic
        raise ValueError(f"{name} must be in {lo}..{hi}")


def _lex_lt(a, b):
    """a < b lexicographically, as a non-forking formula"""
    res = False
    for x, y in reversed(list(zip(a, b))):
        res = Or_(x < y, And_(eq_(x, y), res))
    return res


def _lex_eq(a, b):
    return And_(*[eq_(x, y) for x, y in zip(a, b)])


class _Cmp:
    __slots__ = ()

    def _key(self):
        raise NotImplementedError

    _family = None

    def _other(self, o):
        if getattr(o, '_family', None) == self._family and self._family is not None:
            return o._key()
        return None

    def __lt__(self, o):
        k = self._other(o)
        return NotImplemented if k is None else _lex_lt(self._key(), k)

    def __le__(self, o):
        k = self._other(o)
        return NotImplemented if k is None else Or_(_lex_lt(self._key(), k), _lex_eq(self._key(), k))

    def __gt__(self, o):
        k = self._other(o)
        return NotImplemented if k is None else _lex_lt(k, self._key())

    def __ge__(self, o):
        k = self._other(o)
        return NotImplemented if k is None else Or_(_lex_lt(k, self._key()), _lex_eq(self._key(), k))

    def __eq__(self, o):
        k = self._other(o)
        return False if k is None else _lex_eq(self._key(), k)

    def __ne__(self, o):
        return Not_(self.__eq__(o))

    def __hash__(self):
        k = self._key()
        if any(is_sym(x) for x in k):
            raise core.Concretised("hash of a symbolic date/time")
        return hash(k)


class time(_Cmp):
    __slots__ = ('hour', 'minute', 'second', 'microsecond', 'tzinfo')
    _family = 'time'

    def __init__(self, hour=0, minute=0, second=0, microsecond=0, tzinfo=None):
        _chk('hour', hour, 0, 23)
        _chk('minute', minute, 0, 59)
        _chk('second', second, 0, 59)
        _chk('microsecond', microsecond, 0, 999999)
        self.hour, self.minute, self.second, self.microsecond, self.tzinfo = hour, minute, second, microsecond, tzinfo

    def _key(self):
        return (self.hour, self.minute, self.second, self.microsecond)

    def replace(self, tzinfo=None):
        return time(*self._key(), tzinfo=tzinfo)

    def __repr__(self):
        return f"symdt.time{self._key()}"

    def __str__(self):
        h, m, s, us = self._key()
        base = f"{h:02d}:{m:02d}:{s:02d}"
        return base + (f".{us:06d}" if us else "")

    @classmethod
    def from_real(cls, t):
        return cls(t.hour, t.minute, t.second, t.microsecond)


class date(_Cmp):
    __slots__ = ('year', 'month', 'day')
    _family = 'date'

    def __init__(self, year, month, day):
        _chk('year', year, 1, 9999)
        _chk('month', month, 1, 12)
        if is_sym(month):
            dim = 31
            for m in range(1, 13):
                dim = core.If_(eq_(month, m), _DIM[m], dim)
            leap_ok = True
        else:
            dim = _DIM[month]
        if not is_sym(month) and month == 2 and not is_sym(year):
            leap = year % 4 == 0 and (year % 100 != 0 or year % 400 == 0)
            dim = 29 if leap else 28
        _chk('day', day, 1, dim)
        self.year, self.month, self.day = year, month, day

    def _key(self):
        return (self.year, self.month, self.day)

    def isoweekday(self):
        return _dt.date(self.year, self.month, self.day).isoweekday()

    def __repr__(self):
        return f"symdt.date{self._key()}"


class datetime(_Cmp):
    __slots__ = ('year', 'month', 'day', 'hour', 'minute', 'second', 'microsecond', 'tzinfo')
    _family = 'datetime'

    def __init__(self, year, month, day, hour=0, minute=0, second=0, microsecond=0, tzinfo=None):
        d = date(year, month, day)
        t = time(hour, minute, second, microsecond)
        self.year, self.month, self.day = d.year, d.month, d.day
        self.hour, self.minute, self.second, self.microsecond = t.hour, t.minute, t.second, t.microsecond
        self.tzinfo = tzinfo

    def _key(self):
        return (self.year, self.month, self.day, self.hour, self.minute, self.second, self.microsecond)

    def time(self):
        return time(self.hour, self.minute, self.second, self.microsecond)

    def date(self):
        return date(self.year, self.month, self.day)

    def isoweekday(self):
        return _dt.date(self.year, self.month, self.day).isoweekday()

    def __repr__(self):
        return f"symdt.datetime{self._key()}"


ATTRS = {
    time: "hour minute second microsecond".split(),
    date: "month day".split(),
    datetime: "year month day hour minute second microsecond".split(),
}
timezone = _dt.timezone
timedelta = _dt.timedelta
