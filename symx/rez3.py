"""Translate a compiled Python regular expression (re._parser tree) into a z3 regex."""
import re
import z3
import re._parser as sre_parse
import re._constants as C

_SPACE = ' \t\n\r\x0b\x0c'


class Unsupported(Exception):
    pass


def _lit(code, ic):
    ch = chr(code)
    if ic and ch.lower() != ch.upper():
        return z3.Union(z3.Re(ch.lower()), z3.Re(ch.upper()))
    return z3.Re(ch)


def _cat(av, ascii_only):
    if av is C.CATEGORY_DIGIT:
        if not ascii_only:
            raise Unsupported("unicode \\d")
        return z3.Range('0', '9')
    if av is C.CATEGORY_SPACE:
        if not ascii_only:
            raise Unsupported("unicode \\s")
        return z3.Union(*[z3.Re(c) for c in _SPACE])
    raise Unsupported(av)


def _cls(items, ic, ascii_only):
    neg = False
    alts = []
    for op, av in items:
        if op is C.NEGATE:
            neg = True
        elif op is C.LITERAL:
            alts.append(_lit(av, ic))
        elif op is C.RANGE:
            alts.append(z3.Range(chr(av[0]), chr(av[1])))
        elif op is C.CATEGORY:
            alts.append(_cat(av, ascii_only))
        else:
            raise Unsupported(op)
    if neg:
        raise Unsupported("negated class")
    return alts[0] if len(alts) == 1 else z3.Union(*alts)


def _seq(parts):
    if not parts:
        return z3.Re("")
    return parts[0] if len(parts) == 1 else z3.Concat(*parts)


def _tr(tree, ic, ao, atoms):
    out = []
    for op, av in tree:
        if op is C.LITERAL:
            out.append(_lit(av, ic))
        elif op is C.IN:
            out.append(_cls(av, ic, ao))
        elif op is C.MAX_REPEAT or op is C.MIN_REPEAT:
            lo, hi, sub = av
            r = _tr(sub, ic, ao, atoms)
            atoms.append(('repeat', lo, hi, str(sub)))
            if hi is C.MAXREPEAT:
                out.append(z3.Star(r) if lo == 0 else z3.Plus(r) if lo == 1
                           else z3.Concat(z3.Loop(r, lo, lo), z3.Star(r)))
            elif lo == 0 and hi == 1:
                out.append(z3.Option(r))
            else:
                out.append(z3.Loop(r, lo, hi))
        elif op is C.SUBPATTERN:
            out.append(_tr(av[3], ic, ao, atoms))
        elif op is C.BRANCH:
            out.append(z3.Union(*[_tr(b, ic, ao, atoms) for b in av[1]]))
        elif op is C.CATEGORY:
            out.append(_cat(av, ao))
        else:
            raise Unsupported(op)
    return _seq(out)


def _is_digit_class(sub):
    items = list(sub)
    if len(items) != 1:
        return False
    op, av = items[0]
    if op is C.IN:
        return all((o is C.CATEGORY and a is C.CATEGORY_DIGIT) or (o is C.RANGE and (chr(a[0]), chr(a[1])) == ('0', '9'))
                   for o, a in av)
    return op is C.CATEGORY and av is C.CATEGORY_DIGIT


def _cannot_start_with_digit(items):
    """conservative: True only if no string of the (remaining) sequence begins with a digit"""
    for op, av in items:
        if op is C.LITERAL:
            return not chr(av).isdigit()
        if op in (C.MAX_REPEAT, C.MIN_REPEAT):
            lo, hi, sub = av
            sub = list(sub)
            if not _cannot_start_with_digit(sub) or not sub:
                return False
            if lo > 0:
                return True
            continue            # optional, and it cannot start with a digit: look at what follows
        if op is C.ASSERT_NOT:
            continue
        return False
    return True                 # end of the pattern


def _strip_vacuous_assertions(tree):
    """Under re.fullmatch a negative look-behind for a digit at the very start of the pattern, and a negative look-ahead
    for a digit at a position where only non-digits (or the end) can follow, can never fail: they constrain the CONTEXT
    of a search() match, not the fully matched language.  Such assertions are dropped; any other assertion is refused."""
    items = list(tree)
    out = []
    for i, (op, av) in enumerate(items):
        if op is C.ASSERT_NOT:
            direction, sub = av
            if not _is_digit_class(sub):
                raise Unsupported("assertion on something else than one digit")
            if direction < 0 and all(o is C.ASSERT_NOT for o, _ in items[:i]):
                continue
            if direction > 0 and _cannot_start_with_digit(items[i + 1:]):
                continue
            raise Unsupported("non-vacuous look-around assertion")
        out.append((op, av))
    return out


def to_z3(pat: re.Pattern):
    """z3 regex denoting exactly the strings fully matched by pat (re.fullmatch)."""
    tree = _strip_vacuous_assertions(sre_parse.parse(pat.pattern, pat.flags))
    atoms = []
    return _tr(tree, bool(pat.flags & re.IGNORECASE), bool(pat.flags & re.ASCII), atoms), atoms


def digit_atoms_unbounded(pat: re.Pattern):
    """True if every digit class in pat occurs only under an unbounded repeat (\\d+ / \\d*):
    the soundness condition for numeral tokens (any digit string of any length is treated alike)."""
    tree = sre_parse.parse(pat.pattern, pat.flags)
    ok = [True]

    def has_digit(t):
        for op, av in t:
            if op is C.IN and any(o is C.CATEGORY and a is C.CATEGORY_DIGIT or
                                  (o is C.RANGE and chr(a[0]) == '0' and chr(a[1]) == '9') for o, a in av):
                return True
            if op is C.CATEGORY and av is C.CATEGORY_DIGIT:
                return True
        return False

    def walk(t, under_unbounded):
        for op, av in t:
            if op in (C.MAX_REPEAT, C.MIN_REPEAT):
                lo, hi, sub = av
                walk(sub, hi is C.MAXREPEAT and has_digit(sub) and len(list(sub)) == 1)
            elif op is C.SUBPATTERN:
                walk(av[3], False)
            elif op is C.BRANCH:
                for b in av[1]:
                    walk(b, False)
            elif has_digit([(op, av)]) and not under_unbounded:
                ok[0] = False
    walk(tree, False)
    return ok[0]
