"""
vcheck driver:  python -m symx.run Cxx --tier quick|thorough   |   --replay FILE

Loads harness/Cxx.py, explores all its shards in a process pool, confirms every counterexample
by a concrete replay on the real code, writes evidence/Cxx.json.

Exit codes: 0 = held on everything explored; 1 = replay-confirmed violation (VIOLATION line);
2 = inconclusive / harness error (never reported as success).
"""
from __future__ import annotations

import argparse
import hashlib
import importlib
import json
import multiprocessing as mp
import os
import re
import sys
import time
import traceback

ROOT = os.path.dirname(os.path.dirname(os.path.abspath(__file__)))
REPO = os.environ.get('VERIF_REPO', '/repo').rstrip('/')      # see symx/edz.py


def _load(prop):
    return importlib.import_module(f"harness.{prop}")


def _profile_functions(scenario, params, core, model):
    """edzed functions executed on one path of a shard.  The path is re-run concretely (same
    scenario, values of a sample model) under sys.setprofile: profiling the symbolic run itself
    would trace every call inside the z3 bindings."""
    seen = {}

    def prof(frame, event, arg):
        if event == 'call':
            co = frame.f_code
            fn = co.co_filename
            if fn.startswith(REPO + '/edzed'):
                key = (fn[len(REPO) + 1:], co.co_qualname)
                if key not in seen:
                    seen[key] = co.co_firstlineno
    sys.setprofile(prof)
    try:
        core.replay(scenario, params, model, timeout_s=10)
    except BaseException:
        pass
    finally:
        sys.setprofile(None)
        core.CUR = None
    return [f"{f}:{line} {q}" for (f, q), line in sorted(seen.items())]


def _run_shard(job):
    prop, idx, tier, want_twin, want_prof, deadline = job
    from symx import core
    try:
        mod = _load(prop)
        shard = mod.shards(tier)[idx]
        scen = getattr(mod, shard['scenario'])
        params = shard.get('params', {})
        t0 = time.monotonic()
        res = core.explore(scen, params, deadline=deadline,
                           max_paths=shard.get('max_paths'),
                           max_violations=shard.get('max_violations', 3))
        out = {
            'idx': idx, 'name': shard['name'], 'stats': res['stats'].as_dict(),
            'violations': res['violations'], 'samples': res['samples'],
            'complete': res['complete'], 'wall': time.monotonic() - t0,
        }
        if want_twin:
            core.SymEnv.TWIN = True
            try:
                tw = core.explore(scen, params, max_violations=4, deadline=deadline)
            finally:
                core.SymEnv.TWIN = False
            ok = False
            for v in tw['violations'][:1]:
                try:
                    failures, exc, cenv = core.replay(scen, params, v['model'], timeout_s=getattr(mod, 'PLAIN_REPLAY_TIMEOUT', 15))
                    ok = v['label'][5:] in cenv.passed + [f[0] for f in failures]
                except core.ReplayMismatch:
                    ok = False
                if not ok:
                    # exact (pinned) replay: same model, rational arithmetic
                    try:
                        failures, exc, cenv = core.replay_pinned(scen, params, v['model'])
                        ok = v['label'][5:] in cenv.passed + [f[0] for f in failures]
                        out['twin_mode'] = 'pinned-exact'
                    except (core.ReplayMismatch, core.Inconclusive):
                        ok = False
            out['twin'] = ok
        if want_prof and res['samples']:
            m = res['samples'][0]
            out['functions'] = _profile_functions(scen, params, core, {'vars': m['model'], 'decisions': m['choices']})
        return out
    except core.Inconclusive as err:
        return {'idx': idx, 'name': f'shard{idx}', 'inconclusive': f"{type(err).__name__}: {err}",
                'tb': traceback.format_exc()[-2000:]}
    except BaseException as err:     # harness bug
        return {'idx': idx, 'name': f'shard{idx}', 'inconclusive': f"harness error {err!r}",
                'tb': traceback.format_exc()[-3000:]}


def _confirm(mod, shard, viol):
    """Concrete replay of a counterexample. Returns (confirmed, text)."""
    from symx import core
    scen = getattr(mod, shard['scenario'])
    import functools
    ok, text = _confirm_with(functools.partial(core.replay, timeout_s=getattr(mod, 'PLAIN_REPLAY_TIMEOUT', 60)),
                             mod, shard, viol, scen)
    if ok or not getattr(mod, 'ALLOW_PINNED_REPLAY', False):
        return ok, text
    ok2, text2 = _confirm_with(core.replay_pinned, mod, shard, viol, scen)
    if ok2:
        return True, ("[plain float replay did not reproduce: " + text.splitlines()[-1] + "]\n"
                      "[reproduced by the exact replay (same inputs, rational arithmetic on the virtual clock)]\n" + text2)
    return False, text + "\n[exact replay] " + text2


def _confirm_with(replay_fn, mod, shard, viol, scen):
    from symx import core
    try:
        failures, exc, env = replay_fn(scen, shard.get('params', {}), viol['model'])
    except (core.ReplayMismatch, core.Inconclusive) as err:
        return False, f"replay mismatch: {err}"
    lines = [f"observed: {o!r}" for o in env.log[-30:]]
    if viol['kind'] == 'exception':
        want = viol['label'].split(':', 1)[1]
        if exc is not None and type(exc).__name__ == want:
            return True, '\n'.join(lines + [f"exception reproduced: {exc!r}"])
        return False, '\n'.join(lines + [f"exception NOT reproduced (got {exc!r}, failures {failures})"])
    labels = [f[0] for f in failures]
    if viol['label'] in labels:
        return True, '\n'.join(lines + [f"failed check: {f[0]}  {f[1]!r}" for f in failures])
    if exc is not None:
        return False, '\n'.join(lines + [f"replay raised {exc!r}"] +
                                traceback.format_exception(exc)[-6:])
    if failures:
        # another check failed first on the concrete run: still a reproduced disagreement
        return True, '\n'.join(lines + [f"failed check: {f[0]}  {f[1]!r}" for f in failures])
    return False, '\n'.join(lines + ["no check failed in the concrete replay"])


def _known(prop):
    path = os.path.join(ROOT, 'known_findings.json')
    if not os.path.exists(path):
        return []
    with open(path) as f:
        data = json.load(f)
    return [e for e in data.get('findings', []) if e.get('property') == prop
            and e.get('status') == 'known']


def _sha(path):
    try:
        with open(path, 'rb') as f:
            return hashlib.sha256(f.read()).hexdigest()[:16]
    except OSError:
        return None


def do_replay(prop, path):
    from symx import core
    mod = _load(prop)
    with open(path) as f:
        rp = json.load(f)
    shard = {'scenario': rp['scenario'], 'params': rp['params']}
    ok, text = _confirm(mod, shard, {'model': rp['model'], 'label': rp['label'],
                                     'kind': rp.get('kind', 'check')})
    print(f"replay of {path}: shard {rp['shard']!r}, check {rp['label']!r}")
    print("model:", json.dumps(rp['model']))
    print(text)
    if ok:
        print(f"VIOLATION property={prop} replay={path}")
        return 1
    print("not reproduced on this tree")
    return 0


def main(argv=None):
    ap = argparse.ArgumentParser()
    ap.add_argument('prop')
    ap.add_argument('--tier', default=os.environ.get('VERIF_TIER') or 'quick',
                    choices=['quick', 'thorough'])
    ap.add_argument('--replay')
    ap.add_argument('--only', help='regex on shard names (debugging; evidence marked partial)')
    ap.add_argument('--jobs', type=int, default=int(os.environ.get('VERIF_JOBS', '0')) or None)
    ap.add_argument('--no-evidence', action='store_true')
    ap.add_argument('--budget', type=float, help='wall-time cap in seconds (default: per tier / harness)')
    args = ap.parse_args(argv)
    prop = args.prop
    sys.path.insert(0, ROOT)
    if args.replay:
        return do_replay(prop, args.replay)

    seed = int(os.environ.get('VERIF_SEED', '0') or 0)
    t_start = time.monotonic()
    tier = args.tier
    os.environ.setdefault('VERIF_XCHECK', '4' if tier == 'quick' else '16')    # read by symx.core at import
    mod = _load(prop)
    shards = mod.shards(tier)
    budget = getattr(mod, 'BUDGET_S', {}).get(tier, 600 if tier == 'quick' else 3600)
    if args.budget:
        budget = args.budget
    deadline = time.monotonic() + budget
    sel = [i for i, s in enumerate(shards) if not args.only or re.search(args.only, s['name'])]
    # twin + profile on the first shard of every scenario function
    first = {}
    for i in sel:
        first.setdefault(shards[i]['scenario'], i)
    jobs = [(prop, i, tier, i in first.values(), i in first.values(), deadline) for i in sel]
    jobs.sort(key=lambda j: -shards[j[1]].get('cost', 1))
    nproc = args.jobs or min(16, os.cpu_count() or 1, max(1, len(jobs)))
    if nproc > 1:
        ctx = mp.get_context('fork')
        with ctx.Pool(nproc) as pool:
            results = list(pool.imap_unordered(_run_shard, jobs, chunksize=1))
    else:
        results = [_run_shard(j) for j in jobs]
    results.sort(key=lambda r: r['idx'])

    from symx import core
    total = core.Stats()
    inconclusive = []
    functions = set()
    samples = []
    confirmed = []
    known_hits = []
    twins = {}
    nontrivial = 0
    for r in results:
        if 'inconclusive' in r:
            inconclusive.append(f"shard {shards[r['idx']]['name']}: {r['inconclusive']}\n{r.get('tb', '')}")
            continue
        st = core.Stats()
        st.__dict__.update(r['stats'])
        total.merge(st)
        if not r['complete'] and not r['violations']:
            inconclusive.append(f"shard {r['name']}: exploration not completed (budget/path cap)")
        functions.update(r.get('functions', []))
        if 'twin' in r:
            twins[shards[r['idx']]['scenario']] = bool(r['twin'])
        for s in r['samples']:
            s = dict(s)
            s['shard'] = r['name']
            samples.append(s)
    # vacuity guards
    for scen, ok in twins.items():
        if not ok:
            inconclusive.append(f"reachability twin of {scen}: assert False was NOT reported")
    for lab in getattr(mod, 'EXPECT_LABELS', {}).get(tier, getattr(mod, 'EXPECT_LABELS', {}).get('all', [])):
        if not args.only and not total.labels.get(lab):
            inconclusive.append(f"check site {lab!r} was never reached (vacuous)")
    for key in getattr(mod, 'EXPECT_NOTES', {}).get(tier, getattr(mod, 'EXPECT_NOTES', {}).get('all', [])):
        if not args.only and not total.notes.get(key):
            inconclusive.append(f"interesting region {key!r} was never reached")
    floor = getattr(mod, 'FLOORS', {}).get(tier, {})
    if not args.only:
        if total.paths < floor.get('paths', 1):
            inconclusive.append(f"only {total.paths} paths explored, floor is {floor.get('paths', 1)}")
        if total.checks < floor.get('checks', 1):
            inconclusive.append(f"only {total.checks} check sites, floor is {floor.get('checks', 1)}")

    # counterexamples: replay before reporting
    known = _known(prop)
    os.makedirs(os.path.join(ROOT, 'replays'), exist_ok=True)
    for r in results:
        for v in r.get('violations', []):
            if len(confirmed) >= 5:
                break
            shard = shards[r['idx']]
            ok, text = _confirm(mod, shard, v)
            if not ok:
                inconclusive.append(
                    f"shard {shard['name']}: counterexample for {v['label']!r} did NOT reproduce "
                    f"in the concrete replay (encoding/stub error?)\nmodel: {v['model']}\n{text}\n"
                    f"info: {v.get('info')}")
                continue
            rp = {'property': prop, 'shard': shard['name'], 'scenario': shard['scenario'],
                  'params': shard.get('params', {}), 'label': v['label'], 'kind': v['kind'],
                  'model': v['model'], 'info': v.get('info'), 'replay_output': text}
            blob = json.dumps(rp, sort_keys=True, default=str)
            h = hashlib.sha256(blob.encode()).hexdigest()[:10]
            path = os.path.join(ROOT, 'replays', f"{prop}-{h}.json")
            with open(path, 'w') as f:
                f.write(json.dumps(rp, indent=1, default=str))
            hit = None
            for k in known:
                if (re.search(k.get('label', ''), v['label'])
                        and re.search(k.get('shard', ''), shard['name'])
                        and all(re.search(p, text) for p in k.get('output_patterns', []))):
                    hit = k
                    break
            if hit:
                known_hits.append((hit, path))
            else:
                confirmed.append((shard['name'], v['label'], path, text))

    wall = time.monotonic() - t_start
    paths_nontrivial = total.notes.get('__nontrivial_paths', 0)
    level = getattr(mod, 'LEVEL', 'model_checking')
    rng_samples = samples
    if samples:
        # prefer paths that observed something; the seed only rotates the choice
        rich = [x for x in samples if x.get('observed')] or samples
        k = seed % len(rich)
        rng_samples = (rich[k:] + rich[:k])[:6]
    coverage = {
        'states': total.paths,
        'transitions': total.decisions,
        'traces_validated_against_impl': total.paths,
        'evaluations': total.paths,
        'distinct_nontrivial': total.notes.get('__nontrivial', total.nontrivial_paths),
        'rule': ("each evaluation is one path = one region of the symbolic input space, produced by the "
                 "real code's own branches (distinct by construction: their path conditions are mutually "
                 "exclusive); distinct_nontrivial counts the paths whose path condition contains at least one "
                 "solver-decided branch on a symbolic value or whose property was discharged by a solver query "
                 "(paths that differ only in enumerated discrete choices are not counted)"),
        'rule_override': getattr(mod, 'NONTRIVIAL_RULE', None),
        'samples': rng_samples or [{'note': 'no completed path'}],
        'exhaustive': not inconclusive and not args.only and all(r.get('complete', False) for r in results),
        'shards_stopped_at_counterexamples': [r['name'] for r in results if 'complete' in r and not r['complete']],
        'paths_aborted_by_assumptions': total.aborted,
        'branch_forks': total.forks,
        'max_depth': total.max_depth,
        'check_sites_reached': total.checks,
        'check_sites_discharged': total.discharged,
        'check_sites_by_label': total.labels,
        'solver_queries': {'total': total.queries, 'sat': total.q_sat, 'unsat': total.q_unsat,
                           'unknown': total.q_unknown},
        'solver_seconds': round(total.solver_s, 3),
        'solver_crosscheck': {
            'what': "sample of the validity queries answered 'unsat' by the engine's z3 (first query of every check "
                    "label and every 2^k-th query of each shard, at most VERIF_XCHECK=%s per shard), re-decided as one "
                    "SMT-LIB2 batch per shard by independent solver binaries; a 'sat' answer makes the check "
                    "inconclusive, 'unknown'/error leaves the query unconfirmed by that solver"
                    % os.environ.get('VERIF_XCHECK'),
            'solvers': {'cvc5': 'cvc5 binary on PATH (1.0.x)', 'z3-4.8': '/usr/bin/z3 (4.8.12)'},
            'counts': {k[5:]: v for k, v in sorted(total.notes.items()) if k.startswith('__xc_')},
        },
        'shards': [{'name': shards[r['idx']]['name'],
                    'paths': r.get('stats', {}).get('paths'),
                    'wall_s': round(r.get('wall', 0), 2)} for r in results],
        'interesting_regions': {k: v for k, v in total.notes.items() if not k.startswith('__')},
        'reachability_twins': twins,
        'bounds': getattr(mod, 'BOUNDS', {}).get(tier),
        'outside_the_bounds': getattr(mod, 'OUTSIDE', []),
        'functions_executed_symbolically': sorted(functions),
        'source_sha256': {f: _sha(os.path.join(REPO, f))
                          for f in sorted({x.split(':')[0] for x in functions})},
        'stubs': getattr(mod, 'STUBS', []),
        'engine': 'symx (z3 %s): proxy-based symbolic execution of the real edzed code, DFS by re-execution'
                  % __import__('z3').get_version_string(),
        'inconclusive': inconclusive,
        'known_findings_hit': sorted({k[0].get('id') for k in known_hits}),
        'known_finding_counterexamples': len(known_hits),
        'partial_run': bool(args.only),
    }
    extra = getattr(mod, 'extra_evidence', None)
    if extra is not None:
        try:
            coverage['extra'] = extra(tier)
        except Exception as err:       # noqa
            inconclusive.append(f"extra evidence failed: {err!r}")
    evidence = {
        'property_id': prop, 'tier': tier, 'seed': seed, 'level': level,
        'coverage': coverage,
        'assumptions': list(getattr(mod, 'ASSUMPTIONS', [])) + COMMON_ASSUMPTIONS,
        'wall_s': round(wall, 2),
        'violations': len(confirmed),
    }
    if not args.no_evidence:
        os.makedirs(os.path.join(ROOT, 'evidence'), exist_ok=True)
        with open(os.path.join(ROOT, 'evidence', f"{prop}.json"), 'w') as f:
            json.dump(evidence, f, indent=1, default=str)

    print(f"[{prop} {tier}] shards={len(results)} paths={total.paths} forks={total.forks} "
          f"checks={total.checks} (solver-decided {total.sym_checks}) queries={total.queries} "
          f"solver={total.solver_s:.1f}s wall={wall:.1f}s")
    seen_known = set()
    for k, path in known_hits:
        if k.get('id') in seen_known:
            continue            # one line per listed finding (first replay); all replays are kept in replays/
        seen_known.add(k.get('id'))
        n = sum(1 for k2, _ in known_hits if k2.get('id') == k.get('id'))
        print(f"KNOWN-FINDING: property={prop} {k.get('id')}: {k.get('description')} "
              f"({n} counterexample(s) matched, first replay={path})")
    for name, label, path, text in confirmed:
        print(f"--- counterexample in shard {name!r}, check {label!r}:")
        print(text)
        print(f"VIOLATION property={prop} replay={path}")
    if confirmed:
        return 1
    if inconclusive:
        print("INCONCLUSIVE (exit 2):")
        for m in inconclusive:
            print("  -", m)
        return 2
    print(f"OK property={prop}: held on everything explored" + (" (apart from the known findings listed above)" if known_hits else ""))
    return 0


COMMON_ASSUMPTIONS = [
    "bounded claim: holds for every value of the symbolic variables on every explored path, within "
    "the stated bounds only",
    "real numbers are exact rationals (IEEE rounding of float arithmetic is outside the claim); "
    "Python ints are mathematical integers",
    "z3 (5.x library) is trusted for unsat verdicts - a sample of them is re-decided by the cvc5 and z3 4.8 "
    "binaries (coverage.solver_crosscheck); every sat verdict is confirmed by a concrete replay",
    "logging is disabled (logging.disable) and Block.__hash__ is by name (deterministic re-execution)",
]

if __name__ == '__main__':
    sys.exit(main())
