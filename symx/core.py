"""
symx - a small symbolic executor for Python on top of z3.

The *real* functions of the code under test run on proxy values (subclasses of int / float /
str carrying a z3 term).  Every branch on a symbolic condition is decided by the solver, both
sides are explored (depth-first, by re-execution), and at every `check()` site the negated
property is handed to the solver under the current path condition:

    unsat   -> holds for EVERY value of the symbolic variables in this path region
    sat     -> model -> concrete replay of the same scenario with plain Python values
    unknown -> inconclusive (never success)

The same scenario function runs in two modes through the `env` object it receives:
symbolic (SymEnv: proxies, forking) and concrete (ConcreteEnv: plain values from a model, no
proxies, no engine) - the latter is the replay used to confirm a counterexample on the real
code before it is reported.
"""
from __future__ import annotations

import fractions
import math
import os
import time as _time
import z3

Fraction = fractions.Fraction


class Inconclusive(Exception):
    """The check cannot be decided (solver 'unknown', divergence, concretisation...).
    The code under test (or asyncio) may swallow it, so it is also remembered in the environment
    (env.poisoned) and re-raised by the explorer when the path ends."""

    def __init__(self, *args):
        super().__init__(*args)
        env = CUR
        if env is not None and getattr(env, 'poisoned', None) is None:
            try:
                env.poisoned = self
            except Exception:
                pass


class Diverged(Inconclusive):
    pass


class Concretised(Inconclusive):
    pass


class PathAbort(BaseException):
    """Stop the current path silently (infeasible assumption)."""


class ViolationFound(BaseException):
    """A check site can be violated; carries the model."""

    def __init__(self, label, model, info=None):
        super().__init__(label)
        self.label = label
        self.model = model
        self.info = info


CUR: "SymEnv|ConcreteEnv|None" = None     # environment of the running path


def cur():
    if CUR is None:
        raise RuntimeError("symx: no active environment")
    return CUR


# --------------------------------------------------------------------------------------
# z3 helpers

def _fval(x: float):
    return z3.RealVal(str(Fraction(x)))


def is_sym(x) -> bool:
    return isinstance(x, (SymBool, SymInt, SymReal, SymStr))


def zof(x):
    """z3 term of a proxy or of a plain Python value (None if not representable)."""
    if isinstance(x, (SymBool, SymInt, SymReal, SymStr)):
        return x.z
    if isinstance(x, z3.ExprRef):
        return x
    if isinstance(x, bool):
        return z3.BoolVal(x)
    if isinstance(x, int):
        return z3.IntVal(x)
    if isinstance(x, Fraction):
        return z3.RealVal(str(x))
    if isinstance(x, float):
        if x != x or x in (math.inf, -math.inf):
            return None
        return _fval(x)
    if isinstance(x, str):
        return z3.StringVal(x)
    return None


def _num(x):
    """z3 arithmetic term for a number-like (bools count as 0/1); None otherwise."""
    if isinstance(x, (SymInt, SymReal)):
        return x.z
    if isinstance(x, SymBool):
        return z3.If(x.z, z3.IntVal(1), z3.IntVal(0))
    if isinstance(x, bool):
        return z3.IntVal(int(x))
    if isinstance(x, int):
        return z3.IntVal(x)
    if isinstance(x, Fraction):
        return z3.RealVal(str(x))
    if isinstance(x, float):
        if x != x or x in (math.inf, -math.inf):
            return None
        return _fval(x)
    return None


def _wrap(z):
    """Wrap an arithmetic / boolean z3 term into the matching proxy (constants -> plain)."""
    z = z3.simplify(z)
    if z3.is_bool(z):
        if z3.is_true(z):
            return True
        if z3.is_false(z):
            return False
        return SymBool(z)
    if z3.is_int(z):
        if z3.is_int_value(z):
            return z.as_long()
        return SymInt(z)
    if z3.is_real(z):
        if z3.is_rational_value(z):
            fr = Fraction(z.numerator_as_long(), z.denominator_as_long())
            if Fraction(float(fr)) == fr:
                return float(fr)
        return SymReal(z)
    raise TypeError(f"cannot wrap {z}")


def _is_inf(x):
    return isinstance(x, float) and not isinstance(x, SymReal) and x in (math.inf, -math.inf)


def _tr(a):
    return z3.ToReal(a) if z3.is_int(a) else a


def floor_z(z):
    """floor of an arithmetic term as an Int term.

    Encoded definitionally: a fresh Int k with k <= z < k+1 is added to the path condition
    (floor is total and unique, so this is conservative) - keeps the queries in linear mixed
    integer/real arithmetic, which z3 decides quickly, instead of to_int/is_int terms.
    """
    if z3.is_int(z):
        return z
    z = z3.simplify(z)
    if z3.is_rational_value(z):
        return z3.IntVal(math.floor(Fraction(z.numerator_as_long(), z.denominator_as_long())))
    env = CUR
    if env is None or not env.symbolic:
        return z3.ToInt(z)
    # one variable per distinct (canonicalised) argument: floor is a function
    key = z.sexpr()
    k = env.floor_cache.get(key)
    if k is None:
        k = env.fresh_int('floor')
        env.floor_cache[key] = k
        env.solver.add(z3.simplify(z3.ToReal(k) <= z), z3.simplify(z < z3.ToReal(k) + 1))
    return k


def _const_of(b):
    b = z3.simplify(b)
    if z3.is_int_value(b):
        return Fraction(b.as_long())
    if z3.is_rational_value(b):
        return Fraction(b.numerator_as_long(), b.denominator_as_long())
    return None


def py_floordiv_z(a, b):
    """Python's a // b as a z3 term (Int if both Int else Real)."""
    both_int = z3.is_int(a) and z3.is_int(b)
    c = _const_of(b)
    env = CUR
    if c is not None and c != 0 and env is not None and env.symbolic:
        k = floor_z(_tr(a) / z3.RealVal(str(c)))
        return k if both_int else z3.ToReal(k)
    if both_int:
        # SMT-LIB div rounds so that the remainder is non-negative; Python floors
        return z3.If(b > 0, a / b, (-a) / (-b))
    return z3.ToReal(z3.ToInt(_tr(a) / _tr(b)))


def py_mod_z(a, b):
    """Python's a % b (sign of the divisor)."""
    q = py_floordiv_z(a, b)
    if z3.is_int(a) and z3.is_int(b):
        return a - b * q
    return _tr(a) - _tr(b) * q


def And_(*xs):
    zs = []
    for x in xs:
        if isinstance(x, bool):
            if not x:
                return False
            continue
        zs.append(zof(x))
    if not zs:
        return True
    return _wrap(z3.And(*zs))


def Or_(*xs):
    zs = []
    for x in xs:
        if isinstance(x, bool):
            if x:
                return True
            continue
        zs.append(zof(x))
    if not zs:
        return False
    return _wrap(z3.Or(*zs))


def Not_(x):
    if isinstance(x, bool):
        return not x
    return _wrap(z3.Not(zof(x)))


def Implies_(a, b):
    return Or_(Not_(a), b)


def Iff_(a, b):
    if isinstance(a, bool) and isinstance(b, bool):
        return a == b
    return _wrap(zof(a) == zof(b))


def If_(c, a, b):
    """Value-level if-then-else without forking (numbers/bools only)."""
    if isinstance(c, bool):
        return a if c else b
    za, zb = zof(a), zof(b)
    if z3.is_int(za) and z3.is_real(zb):
        za = z3.ToReal(za)
    if z3.is_real(za) and z3.is_int(zb):
        zb = z3.ToReal(zb)
    return _wrap(z3.If(zof(c), za, zb))


def truthy(x):
    """Truth value of x as bool / SymBool WITHOUT forking."""
    if isinstance(x, SymBool):
        return x
    if isinstance(x, (SymInt, SymReal)):
        return _wrap(x.z != 0)
    if isinstance(x, SymStr):
        return _wrap(z3.Length(x.z) > 0)
    return bool(x)


def eq_(a, b):
    """a == b as bool / SymBool without forking; Python semantics for plain values."""
    if not is_sym(a) and not is_sym(b):
        return a == b
    r = a.__eq__(b) if is_sym(a) else b.__eq__(a)
    if r is NotImplemented:
        return False
    return r


# --------------------------------------------------------------------------------------
# proxies

class SymBool:
    __slots__ = ('z',)

    def __init__(self, z):
        self.z = z

    def __bool__(self):
        return cur().branch(self.z)

    def _other(self, o):
        if isinstance(o, SymBool):
            return o.z
        if isinstance(o, bool):
            return z3.BoolVal(o)
        return None

    def __eq__(self, o):
        oz = self._other(o)
        if oz is None:
            n = _num(o)
            if n is None:
                return False
            return _wrap(_num(self) == n)
        return _wrap(self.z == oz)

    def __ne__(self, o):
        r = self.__eq__(o)
        return Not_(r)

    def __and__(self, o):
        oz = self._other(o)
        return NotImplemented if oz is None else _wrap(z3.And(self.z, oz))
    __rand__ = __and__

    def __or__(self, o):
        oz = self._other(o)
        return NotImplemented if oz is None else _wrap(z3.Or(self.z, oz))
    __ror__ = __or__

    def __invert__(self):
        return _wrap(z3.Not(self.z))

    def __hash__(self):
        raise Concretised("hash() of a symbolic bool")

    def __repr__(self):
        return f"<symbool {self.z}>"
    __str__ = __repr__

    def __format__(self, spec):
        return repr(self)

    # numeric use of a bool (True + 1 ...)
    def __add__(self, o):
        return SymInt(_num(self)).__add__(o)
    __radd__ = __add__

    def __int__(self):
        raise Concretised("int() of a symbolic bool")

    def __index__(self):
        raise Concretised("index() of a symbolic bool")


class _NumMixin:
    """Arithmetic shared by SymInt and SymReal (Python semantics)."""

    def _bin(self, o, f, swap=False):
        oz = _num(o)
        if oz is None:
            if _is_inf(o) or (isinstance(o, float) and o != o):
                raise Concretised(f"arithmetic with {o!r}")
            return NotImplemented
        a, b = (oz, self.z) if swap else (self.z, oz)
        if isinstance(o, float) and z3.is_int(self.z):
            # int op float -> float
            if swap:
                b = z3.ToReal(b)
            else:
                a = z3.ToReal(a)
        return _wrap(f(a, b))

    def __add__(s, o): return s._bin(o, lambda a, b: a + b)
    def __radd__(s, o): return s._bin(o, lambda a, b: a + b, True)
    def __sub__(s, o): return s._bin(o, lambda a, b: a - b)
    def __rsub__(s, o): return s._bin(o, lambda a, b: a - b, True)
    def __mul__(s, o): return s._bin(o, lambda a, b: a * b)
    def __rmul__(s, o): return s._bin(o, lambda a, b: a * b, True)

    def __truediv__(s, o): return s._bin(o, lambda a, b: _tr(a) / _tr(b))
    def __rtruediv__(s, o): return s._bin(o, lambda a, b: _tr(a) / _tr(b), True)

    def __floordiv__(s, o): return s._bin(o, py_floordiv_z)
    def __rfloordiv__(s, o): return s._bin(o, py_floordiv_z, True)
    def __mod__(s, o): return s._bin(o, py_mod_z)
    def __rmod__(s, o): return s._bin(o, py_mod_z, True)

    def __divmod__(s, o):
        q = s.__floordiv__(o)
        if q is NotImplemented:
            return NotImplemented
        return (q, s - q * o)

    def __rdivmod__(s, o):
        q = s.__rfloordiv__(o)
        if q is NotImplemented:
            return NotImplemented
        return (q, o - q * s)

    def __neg__(s): return _wrap(-s.z)
    def __pos__(s): return s
    def __abs__(s): return _wrap(z3.If(s.z >= 0, s.z, -s.z))

    def _cmp(self, o, f, inf_result):
        if _is_inf(o):
            return inf_result(o > 0)
        oz = _num(o)
        if oz is None:
            return NotImplemented
        return _wrap(f(self.z, oz))

    def __lt__(s, o): return s._cmp(o, lambda a, b: a < b, lambda pos: pos)
    def __le__(s, o): return s._cmp(o, lambda a, b: a <= b, lambda pos: pos)
    def __gt__(s, o): return s._cmp(o, lambda a, b: a > b, lambda pos: not pos)
    def __ge__(s, o): return s._cmp(o, lambda a, b: a >= b, lambda pos: not pos)

    def __eq__(s, o):
        r = s._cmp(o, lambda a, b: a == b, lambda pos: False)
        return False if r is NotImplemented else r

    def __ne__(s, o):
        r = s._cmp(o, lambda a, b: a != b, lambda pos: True)
        return True if r is NotImplemented else r

    def __bool__(s):
        return cur().branch(s.z != 0)

    def __hash__(s):
        raise Concretised(f"hash() of symbolic number {s.z}")

    def __repr__(s):
        return f"<sym {s.z}>"
    __str__ = __repr__

    def __format__(s, spec):
        hook = cur().format_hook if CUR is not None else None
        if hook is not None:
            r = hook(s, spec)
            if r is not None:
                return r
        return f"<sym {s.z}>"

    def __round__(s, ndigits=None):
        return cur().sym_round(s, ndigits)

    def __floor__(s): return _wrap(floor_z(s.z))
    def __ceil__(s): return _wrap(-floor_z(-s.z))

    def __trunc__(s):
        if z3.is_int(s.z):
            return s
        return _wrap(z3.If(s.z >= 0, floor_z(s.z), -floor_z(-s.z)))

    def __reduce__(s):
        raise Concretised("pickle/copy of a symbolic number")

    def __deepcopy__(s, memo):
        return s

    def __copy__(s):
        return s


class SymInt(_NumMixin):
    """Symbolic integer. Deliberately NOT a subclass of int: every C-level access then has to
    go through a dunder method we control (float.__mul__(2.5, SymInt) returns NotImplemented
    and Python falls back to SymInt.__rmul__), so nothing can read a raw payload silently."""
    __slots__ = ('z',)

    def __init__(self, z):
        self.z = z

    def __int__(s):
        raise Concretised(f"int() of symbolic int {s.z} (needs a module-level shim)")

    def __index__(s):
        raise Concretised(f"index() of symbolic int {s.z}")

    def __float__(s):
        raise Concretised(f"float() of symbolic int {s.z} (needs a module-level shim)")

    def __str__(s):
        hook = cur().format_hook if CUR is not None else None
        if hook is not None:
            r = hook(s, '')
            if r is not None:
                return r
        return f"<sym {s.z}>"


class SymReal(_NumMixin, float):
    def __new__(cls, z):
        o = float.__new__(cls, math.nan)
        o.z = z
        return o

    def __float__(s):
        raise Concretised(f"float() of symbolic real {s.z}")

    def __int__(s):
        raise Concretised(f"int() of symbolic real {s.z} (needs a module-level shim)")

    def is_integer(s):
        return _wrap(z3.IsInt(s.z))


class SymStr(str):
    """Symbolic string (z3 sequence theory); only the operations edzed needs."""

    def __new__(cls, z):
        o = str.__new__(cls, "\x00<symstr>")
        o.z = z
        return o

    def _o(self, o):
        if isinstance(o, SymStr):
            return o.z
        if isinstance(o, str):
            return z3.StringVal(o)
        return None

    def startswith(self, prefix, *a):
        if a:
            raise Concretised("SymStr.startswith with indices")
        if isinstance(prefix, tuple):
            return Or_(*[self.startswith(p) for p in prefix])
        return _wrap(z3.PrefixOf(self._o(prefix), self.z))

    def endswith(self, suffix, *a):
        if a:
            raise Concretised("SymStr.endswith with indices")
        return _wrap(z3.SuffixOf(self._o(suffix), self.z))

    def __add__(self, o):
        oz = self._o(o)
        return NotImplemented if oz is None else SymStr(z3.Concat(self.z, oz))

    def __radd__(self, o):
        oz = self._o(o)
        return NotImplemented if oz is None else SymStr(z3.Concat(oz, self.z))

    def __eq__(self, o):
        oz = self._o(o)
        return False if oz is None else _wrap(self.z == oz)

    def __ne__(self, o):
        return Not_(self.__eq__(o))

    def __len__(self):
        raise Concretised("len() of a symbolic string (use symlen)")

    def __bool__(self):
        return cur().branch(z3.Length(self.z) > 0)

    def __contains__(self, o):
        oz = self._o(o)
        if oz is None:
            raise TypeError
        return bool(_wrap(z3.Contains(self.z, oz)))

    def __hash__(self):
        raise Concretised("hash() of a symbolic string")

    def __repr__(self):
        return f"<symstr {self.z}>"
    __str__ = __repr__

    def __format__(self, spec):
        return repr(self)

    def __getitem__(self, i):
        raise Concretised("indexing a symbolic string")

    def __iter__(self):
        raise Concretised("iterating a symbolic string")


# --------------------------------------------------------------------------------------
# environments

class Stats:
    def __init__(self):
        self.paths = 0
        self.aborted = 0
        self.decisions = 0
        self.forks = 0
        self.checks = 0           # check sites reached
        self.discharged = 0       # check sites proved (unsat) or concretely true
        self.sym_checks = 0       # check sites decided by a solver query
        self.queries = 0
        self.q_sat = 0
        self.q_unsat = 0
        self.q_unknown = 0
        self.solver_s = 0.0
        self.max_depth = 0
        self.nontrivial_paths = 0
        self.notes = {}
        self.labels = {}

    def merge(self, o):
        for k in ('paths', 'nontrivial_paths', 'aborted', 'decisions', 'forks', 'checks', 'discharged', 'sym_checks',
                  'queries', 'q_sat', 'q_unsat', 'q_unknown'):
            setattr(self, k, getattr(self, k) + getattr(o, k))
        self.solver_s += o.solver_s
        self.max_depth = max(self.max_depth, o.max_depth)
        for k, v in o.notes.items():
            self.notes[k] = self.notes.get(k, 0) + v
        for k, v in o.labels.items():
            self.labels[k] = self.labels.get(k, 0) + v

    def as_dict(self):
        return dict(self.__dict__)


def _cvc5_check(smt2_text, timeout_ms):
    """second opinion from the cvc5 binary on a query z3 could not decide; returns z3.sat / z3.unsat / z3.unknown.
    Any '(error' line or unexpected output counts as unknown."""
    import os
    import shutil
    import subprocess
    import tempfile
    exe = shutil.which('cvc5')
    if exe is None:
        return z3.unknown
    fd, path = tempfile.mkstemp(suffix='.smt2', prefix='symx-')
    try:
        with os.fdopen(fd, 'w') as f:
            f.write('(set-logic ALL)\n' + smt2_text)
        try:
            out = subprocess.run([exe, '--lang', 'smt2', f'--tlimit={int(timeout_ms)}', path], capture_output=True,
                                 text=True, timeout=timeout_ms / 1000 + 30).stdout
        except Exception:
            return z3.unknown
    finally:
        try:
            os.unlink(path)
        except OSError:
            pass
    lines = [ln.strip() for ln in out.splitlines() if ln.strip()]
    if any(ln.startswith('(error') for ln in lines) or len(lines) != 1:
        return z3.unknown
    return {'sat': z3.sat, 'unsat': z3.unsat}.get(lines[0], z3.unknown)


XCHECK_PER_SHARD = int(os.environ.get('VERIF_XCHECK', '4'))
XCHECK_SOLVERS = (('cvc5', ['cvc5', '--incremental', '--strings-exp', '--tlimit-per=10000']),
                  ('z3-4.8', ['/usr/bin/z3', '-t:10000']))


def crosscheck(queries, notes):
    """Solver diff: the sampled validity queries (each answered 'unsat' by the z3 5.x library the engine runs on)
    are given, as one SMT-LIB2 batch with push/pop, to independent solver binaries.  'sat' from any of them is a
    disagreement -> Inconclusive (the check never reports success on it); 'unknown', a time-out or an '(error' line
    leave the query unconfirmed by that solver, which is counted in the evidence."""
    import shutil
    import subprocess
    import tempfile
    if not queries:
        return
    parts = ['(set-logic ALL)\n']
    for _label, text in queries:
        body = ''.join(ln + '\n' for ln in text.splitlines()
                       if not ln.startswith(';') and not ln.startswith('(set-info'))
        parts.append('(push 1)\n' + body + '(pop 1)\n')
    notes['__xc_sampled'] = notes.get('__xc_sampled', 0) + len(queries)
    fd, path = tempfile.mkstemp(suffix='.smt2', prefix='symx-xc-')
    try:
        with os.fdopen(fd, 'w') as f:
            f.write(''.join(parts))
        for name, cmd in XCHECK_SOLVERS:
            exe = shutil.which(cmd[0])
            if exe is None:
                notes[f'__xc_{name}_unavailable'] = notes.get(f'__xc_{name}_unavailable', 0) + len(queries)
                continue
            try:
                out = subprocess.run([exe] + cmd[1:] + [path], capture_output=True, text=True,
                                     timeout=15 * len(queries) + 30).stdout
            except Exception:
                out = ''
            lines = [ln.strip() for ln in out.splitlines() if ln.strip()]
            if len(lines) != len(queries) or any(ln.startswith('(error') for ln in lines):
                # cannot attribute answers to queries: everything unconfirmed - except a plain 'sat', see below
                if any(ln == 'sat' for ln in lines):
                    keep = os.path.join(os.path.dirname(os.path.dirname(os.path.abspath(__file__))), 'replays',
                                        f'xcheck-{name}-{os.getpid()}.smt2.tmp')
                    shutil.copy(path, keep)
                    raise Inconclusive(f"solver cross-check: {name} answered 'sat' to a query z3 answered 'unsat' "
                                       f"(batch kept in {keep})")
                notes[f'__xc_{name}_error'] = notes.get(f'__xc_{name}_error', 0) + len(queries)
                continue
            for (label, _text), ln in zip(queries, lines):
                if ln == 'unsat':
                    notes[f'__xc_{name}_unsat'] = notes.get(f'__xc_{name}_unsat', 0) + 1
                elif ln == 'sat':
                    keep = os.path.join(os.path.dirname(os.path.dirname(os.path.abspath(__file__))), 'replays',
                                        f'xcheck-{name}-{os.getpid()}.smt2.tmp')
                    shutil.copy(path, keep)
                    raise Inconclusive(f"solver cross-check: {name} answered 'sat' to the validity query of check "
                                       f"{label!r} that z3 answered 'unsat' (batch kept in {keep})")
                else:
                    notes[f'__xc_{name}_unknown'] = notes.get(f'__xc_{name}_unknown', 0) + 1
    finally:
        try:
            os.unlink(path)
        except OSError:
            pass


class SymEnv:
    symbolic = True
    TWIN = False      # reachability twin: the first check site reached is replaced by False

    fallback_timeout_ms = 300000

    def __init__(self, stats: Stats, prefix, timeout_ms=5000):
        self.stats = stats
        self.solver = z3.Solver()
        self.solver.set('timeout', timeout_ms)
        self.prefix, self.prefix_exprs = prefix if isinstance(prefix, tuple) else (prefix, {})
        self.trace = []
        self.trace_exprs = {}           # [(decision, tag)]
        self.pending = []         # prefixes to explore later
        self.vars = {}            # name -> z3 const (declaration order)
        self._names = {}
        self.assumptions = []
        self.format_hook = None
        self.log = []             # free-form observation log (goes into samples)
        self.violations = []
        self.floor_cache = {}
        self.solver_decided = 0
        self.poisoned = None

    # -- solver --
    def _check(self, *extra):
        t = _time.perf_counter()
        r = self.solver.check(*extra)
        if r == z3.unknown:
            # the incremental core gave up: one-shot solver (full preprocessing) on the same query
            self.stats.notes['__fallback_queries'] = self.stats.notes.get('__fallback_queries', 0) + 1
            # further attempts within the fallback budget: z3 one-shot with its default arithmetic core (10 %),
            # z3 one-shot with the simplex core arith.solver=2 (30 %), the cvc5 binary on the SMT-LIB dump (30 %),
            # z3 one-shot again with the rest
            total = self.fallback_timeout_ms
            for attempt, share in (('z3-oneshot', 0.1), ('z3-simplex', 0.3), ('cvc5', 0.3), ('z3-oneshot-long', 0.3)):
                per = max(1000, int(total * share))
                self.stats.notes['__fallback_' + attempt] = self.stats.notes.get('__fallback_' + attempt, 0) + 1
                s2 = z3.Solver()
                s2.set('timeout', per)
                if attempt == 'z3-simplex':
                    s2.set('arith.solver', 2)
                s2.add(self.solver.assertions())
                s2.add(*extra)
                if attempt == 'cvc5':
                    r = _cvc5_check(s2.to_smt2(), per)
                else:
                    r = s2.check()
                    if r == z3.sat:
                        # make the model available through the main solver interface
                        self._fallback_model = s2.model()
                if r != z3.unknown:
                    self.stats.notes['__decided_by_' + attempt] = self.stats.notes.get('__decided_by_' + attempt, 0) + 1
                    break
        self.stats.solver_s += _time.perf_counter() - t
        self.stats.queries += 1
        if r == z3.sat:
            self.stats.q_sat += 1
        elif r == z3.unsat:
            self.stats.q_unsat += 1
        else:
            self.stats.q_unknown += 1
            raise Inconclusive(f"solver returned unknown ({self.solver.reason_unknown()})")
        return r

    def _decide(self, tag, options, feasible):
        """Generic decision point. options: list of values; feasible(v)->bool evaluated lazily."""
        k = len(self.trace)
        if k < len(self.prefix):
            d, t = self.prefix[k]
            if t != tag:
                raise Diverged(f"decision {k}: recorded {t!r}, now {tag!r}")
            self.trace.append((d, t))
            return d
        feas = [v for v in options if feasible(v)]
        if not feas:
            raise PathAbort()
        for v in feas[1:][::-1]:
            self.pending.append((self.trace + [(v, tag)], dict(self.trace_exprs)))
        if len(feas) > 1:
            self.stats.forks += 1
        self.trace.append((feas[0], tag))
        return feas[0]

    def branch(self, cond) -> bool:
        cond = z3.simplify(cond)
        if z3.is_true(cond):
            return True
        if z3.is_false(cond):
            return False
        tag = cond.sexpr()
        k = len(self.trace)
        if k < len(self.prefix):
            d, t = self.prefix[k]
            if t != tag:
                # the simplifier orders commutative arguments by internal ids, which differ between
                # re-executions: accept a textually different condition iff it is equivalent
                old = self.prefix_exprs.get(k)
                same = False
                if old is not None:
                    s2 = z3.Solver()
                    s2.set('timeout', 10000)
                    s2.add(old != cond)
                    same = s2.check() == z3.unsat
                if not same:
                    raise Diverged(f"decision {k}: recorded {t!r}, now {tag!r}")
            self.trace.append((d, tag))
            self.trace_exprs[k] = cond
            self.solver.add(cond if d else z3.Not(cond))
            return d
        # the path condition is satisfiable (invariant) -> at least one side is feasible
        can_t = self._check(cond) == z3.sat
        can_f = True if not can_t else self._check(z3.Not(cond)) == z3.sat
        self.trace_exprs[k] = cond
        if can_t and can_f:
            self.pending.append((self.trace + [(False, tag)], dict(self.trace_exprs)))
            self.stats.forks += 1
            d = True
        elif can_t:
            d = True
        else:
            d = False
        self.trace.append((d, tag))
        self.solver.add(cond if d else z3.Not(cond))
        return d

    def choose(self, n, label='c'):
        """Explore every value in range(n) (discrete alternative)."""
        if n <= 0:
            raise PathAbort()
        if n == 1:
            return 0
        return self._decide(f"choose:{label}:{n}", list(range(n)), lambda v: True)

    def pick(self, seq, label='p'):
        seq = list(seq)
        return seq[self.choose(len(seq), label)]

    # -- variables --
    def _fresh(self, name):
        k = self._names.get(name, 0)
        self._names[name] = k + 1
        return name if k == 0 else f"{name}#{k}"

    def fresh_int(self, name):
        n = self._fresh(name)
        v = z3.Int(n)
        self.vars[n] = v
        return v

    def floor(self, x):
        """floor(x) for oracles: definitional (fresh Int k with k <= x < k+1)."""
        if not is_sym(x):
            return math.floor(x)
        return _wrap(floor_z(x.z))

    def real(self, name, lo=None, hi=None, lo_open=False, hi_open=False):
        n = self._fresh(name)
        v = z3.Real(n)
        self.vars[n] = v
        if lo is not None:
            self.solver.add(v > _num(lo) if lo_open else v >= _num(lo))
        if hi is not None:
            self.solver.add(v < _num(hi) if hi_open else v <= _num(hi))
        return SymReal(v)

    def int(self, name, lo=None, hi=None):
        n = self._fresh(name)
        v = z3.Int(n)
        self.vars[n] = v
        if lo is not None:
            self.solver.add(v >= _num(lo))
        if hi is not None:
            self.solver.add(v <= _num(hi))
        return SymInt(v)

    def bool(self, name):
        n = self._fresh(name)
        v = z3.Bool(n)
        self.vars[n] = v
        return SymBool(v)

    def str(self, name):
        n = self._fresh(name)
        v = z3.String(n)
        self.vars[n] = v
        return SymStr(v)

    def sym_round(self, x, ndigits):
        """round() as an under-specified function: any value within half a unit in the last
        place (sound for every tie-breaking rule); exact integers when ndigits is None."""
        n = self._fresh('round')
        if ndigits is None:
            r = z3.Int(n)
            self.vars[n] = r
            xr = z3.ToReal(x.z) if z3.is_int(x.z) else x.z
            self.solver.add(z3.ToReal(r) - xr <= z3.Q(1, 2), xr - z3.ToReal(r) <= z3.Q(1, 2))
            return SymInt(r)
        if not isinstance(ndigits, int) or isinstance(ndigits, SymInt):
            raise Concretised("round() with symbolic ndigits")
        if z3.is_int(x.z):
            if ndigits >= 0:
                return x
            raise Concretised("round(int, negative)")
        k = z3.Int(n)
        self.vars[n] = k
        scale = 10 ** ndigits
        r = z3.ToReal(k) / scale
        half = z3.Q(1, 2 * scale)
        self.solver.add(r - x.z <= half, x.z - r <= half)
        return SymReal(r)

    # -- assumptions / checks --
    def assume(self, cond, why=''):
        if isinstance(cond, bool):
            if not cond:
                raise PathAbort()
            return
        z = zof(cond)
        if self._check(z) != z3.sat:
            raise PathAbort()
        self.solver.add(z)

    def note(self, key, n=1):
        self.stats.notes[key] = self.stats.notes.get(key, 0) + n

    def holds(self, cond):
        """True iff cond is implied by the path condition (no forking, not a check site)."""
        if isinstance(cond, bool):
            return cond
        return self._check(z3.Not(zof(cond))) == z3.unsat

    def possible(self, cond):
        """True iff cond is consistent with the path condition (no forking)."""
        if isinstance(cond, bool):
            return cond
        return self._check(zof(cond)) == z3.sat

    def obs(self, *items):
        self.log.append(items)

    def check(self, label, cond, info=None):
        """The property at this site. Returns True if it holds on the whole path region."""
        st = self.stats
        st.checks += 1
        st.labels[label] = st.labels.get(label, 0) + 1
        if self.TWIN:
            self._check()
            self._violation('twin:' + label, None)
        if isinstance(cond, bool):
            if cond:
                st.discharged += 1
                return True
            self._check()
            self._violation(label, info)
            return False
        z = zof(cond)
        st.sym_checks += 1
        self.solver_decided += 1
        if self._check(z3.Not(z)) == z3.unsat:
            st.discharged += 1
            self._xc_sample(label, z)
            return True
        self._violation(label, info, extra=z3.Not(z))
        return False

    def _xc_sample(self, label, z):
        """keep a sample of the validity queries answered 'unsat' for the solver cross-check at the end of
        the shard: the first query of every check label, then every query whose ordinal is a power of two"""
        st = self.stats
        xq = st.__dict__.setdefault('_xq', [])
        if len(xq) >= XCHECK_PER_SHARD:
            return
        seen = st.__dict__.setdefault('_xq_labels', set())
        n = st.sym_checks
        if label in seen and n & (n - 1):
            return
        seen.add(label)
        s2 = z3.Solver()
        s2.add(self.solver.assertions())
        s2.add(z3.Not(z))
        xq.append((label, s2.to_smt2()))

    def _violation(self, label, info, extra=None):
        model = self.model(extra)
        raise ViolationFound(label, model, info)

    def _one_shot_model(self, constraints, timeout_ms=30000):
        s2 = z3.Solver()
        s2.set('timeout', timeout_ms)
        s2.add(self.solver.assertions())
        s2.add(*constraints)
        return s2.model() if s2.check() == z3.sat else None

    def model(self, extra=None):
        """Concrete values for all declared variables (regularised to dyadic rationals when
        possible so that they are exact floats)."""
        base = [] if extra is None else [extra]
        reals = [v for v in self.vars.values() if z3.is_real(v)]
        got = None
        for denom in (4, 64, 1024, 1 << 20):
            cons = list(base)
            for i, v in enumerate(reals):
                k = z3.Int(f"__dy{i}")
                cons += [v * denom == z3.ToReal(k), v <= 1 << 20, v >= -(1 << 20)]
            got = self._one_shot_model(cons, 10000)
            if got is not None or not reals:
                break
        if got is None:
            got = self._one_shot_model(base, 120000)
            if got is None:
                raise Inconclusive("model extraction failed")
        out = {}
        for n, v in self.vars.items():
            val = got.eval(v, model_completion=True)
            if z3.is_bool(v):
                out[n] = bool(z3.is_true(val))
            elif z3.is_int(v):
                out[n] = val.as_long()
            elif z3.is_real(v):
                out[n] = str(Fraction(val.numerator_as_long(), val.denominator_as_long()))
            else:
                out[n] = val.as_string()
        return {'vars': out,
                'decisions': [d for d, t in self.trace if t.startswith('choose:')],
                }


class ReplayMismatch(Exception):
    pass


class ConcreteEnv:
    """Replay: the same scenario on plain Python values, no proxies, no solver."""
    symbolic = False

    def __init__(self, model):
        self.vars = dict(model['vars'])
        self.decisions = list(model['decisions'])
        self._names = {}
        self.failures = []
        self.passed = []
        self.log = []
        self.format_hook = None
        self.stats = Stats()

    def _fresh(self, name):
        k = self._names.get(name, 0)
        self._names[name] = k + 1
        return name if k == 0 else f"{name}#{k}"

    def real(self, name, lo=None, hi=None, lo_open=False, hi_open=False):
        n = self._fresh(name)
        return float(Fraction(self.vars.get(n, 0)))

    def int(self, name, lo=None, hi=None):
        n = self._fresh(name)
        return int(self.vars.get(n, 0))

    def bool(self, name):
        n = self._fresh(name)
        return bool(self.vars.get(n, False))

    def str(self, name):
        n = self._fresh(name)
        return str(self.vars.get(n, ''))

    def choose(self, n, label='c'):
        if n <= 0:
            raise ReplayMismatch("choose(0)")
        if n == 1:
            return 0
        if not self.decisions:
            return 0
        v = self.decisions.pop(0)
        if not 0 <= v < n:
            raise ReplayMismatch(f"choice {label}: {v} not in range({n})")
        return v

    def pick(self, seq, label='p'):
        seq = list(seq)
        return seq[self.choose(len(seq), label)]

    def assume(self, cond, why=''):
        if not cond:
            raise ReplayMismatch(f"assumption not met by the model: {why}")

    def note(self, key, n=1):
        pass

    def holds(self, cond):
        return bool(cond)

    def possible(self, cond):
        return bool(cond)

    def obs(self, *items):
        self.log.append(items)

    def check(self, label, cond, info=None):
        if cond:
            self.passed.append(label)
            return True
        self.failures.append((label, repr(info() if callable(info) else info)))
        return False

    def sym_round(self, x, nd):
        return round(x, nd)

    def floor(self, x):
        return math.floor(x)


# --------------------------------------------------------------------------------------
# exploration of one shard

def explore(scenario, params, *, max_paths=None, max_violations=3, deadline=None,
            solver_timeout_ms=5000, collect_samples=2):
    """
    Depth-first exploration of scenario(env, **params) by re-execution.

    Returns dict(stats=Stats, violations=[...], samples=[...], complete=bool)
    """
    global CUR
    stats = Stats()
    pending = [[]]
    violations = []
    samples = []
    complete = True
    seen_labels = set()
    while pending:
        if max_paths is not None and stats.paths >= max_paths:
            complete = False
            break
        if deadline is not None and _time.monotonic() > deadline:
            complete = False
            break
        prefix = pending.pop()
        env = SymEnv(stats, prefix, solver_timeout_ms)
        CUR = env
        try:
            scenario(env, **params)
            if getattr(env, 'poisoned', None) is not None:
                raise env.poisoned
            stats.paths += 1
            if len(samples) < collect_samples:
                try:
                    m = env.model()
                    samples.append({'model': m['vars'], 'choices': m['decisions'],
                                    'observed': [repr(x) for x in env.log][:40]})
                except Inconclusive:
                    pass
        except PathAbort:
            stats.aborted += 1
        except ViolationFound as v:
            if getattr(env, 'poisoned', None) is not None:
                raise env.poisoned
            stats.paths += 1
            if v.label not in seen_labels or len(violations) < max_violations:
                seen_labels.add(v.label)
                info = v.info() if callable(v.info) else v.info
                violations.append({'label': v.label, 'model': v.model,
                                   'info': repr(info) if info is not None else None,
                                   'kind': 'check'})
            if len(violations) >= max_violations:
                complete = False
                pending.extend(env.pending)
                break
        except Inconclusive:
            raise
        except Exception as err:      # unexpected exception inside the scenario
            if getattr(env, 'poisoned', None) is not None:
                raise env.poisoned
            stats.paths += 1
            try:
                m = env.model()
            except Inconclusive:
                raise
            import traceback
            violations.append({'label': f'unexpected-exception:{type(err).__name__}',
                               'model': m, 'info': ''.join(traceback.format_exception(err))[-1500:],
                               'kind': 'exception'})
            if len(violations) >= max_violations:
                complete = False
                pending.extend(env.pending)
                break
        finally:
            CUR = None
            if env.solver_decided or any(not t.startswith('choose:') for _, t in env.trace):
                stats.nontrivial_paths += 1
            stats.decisions += len(env.trace)
            stats.max_depth = max(stats.max_depth, len(env.trace))
        pending.extend(env.pending)
    xq = stats.__dict__.pop('_xq', [])
    stats.__dict__.pop('_xq_labels', None)
    if not SymEnv.TWIN:
        crosscheck(xq, stats.notes)
    return {'stats': stats, 'violations': violations, 'samples': samples, 'complete': complete}


class ReplayTimeout(ReplayMismatch):
    pass


class PinnedEnv(SymEnv):
    """Exact replay: the symbolic engine with every input variable pinned to its model value.
    The path is then unique; arithmetic is exact (rationals), so the float artefacts a plain
    concrete run can have on the virtual clock (IEEE rounding vs. microsecond truncation) cannot
    occur.  Used for reachability twins and as a second replay mode after the plain one."""

    def __init__(self, model):
        super().__init__(Stats(), [])
        self.pin = dict(model['vars'])
        self.decisions = list(model['decisions'])
        self.failures = []
        self.passed = []

    def _pin(self, name, v, conv):
        if name in self.pin:
            self.solver.add(v == conv(self.pin[name]))

    def real(self, name, lo=None, hi=None, lo_open=False, hi_open=False):
        r = super().real(name, lo, hi, lo_open, hi_open)
        n = list(self.vars)[-1]
        self._pin(n, self.vars[n], lambda x: z3.RealVal(str(x)))
        return r

    def int(self, name, lo=None, hi=None):
        r = super().int(name, lo, hi)
        n = list(self.vars)[-1]
        self._pin(n, self.vars[n], lambda x: z3.IntVal(int(x)))
        return r

    def bool(self, name):
        r = super().bool(name)
        n = list(self.vars)[-1]
        self._pin(n, self.vars[n], lambda x: z3.BoolVal(bool(x)))
        return r

    def str(self, name):
        r = super().str(name)
        n = list(self.vars)[-1]
        self._pin(n, self.vars[n], lambda x: z3.StringVal(x))
        return r

    def choose(self, n, label='c'):
        if n <= 1:
            return 0
        if not self.decisions:
            return 0
        v = self.decisions.pop(0)
        if not 0 <= v < n:
            raise ReplayMismatch(f"choice {label}: {v} not in range({n})")
        return v

    def branch(self, cond):
        cond = z3.simplify(cond)
        if z3.is_true(cond):
            return True
        if z3.is_false(cond):
            return False
        can_t = self._check(cond) == z3.sat
        if can_t and self._check(z3.Not(cond)) == z3.sat:
            # an internal under-specified value (round() tie): take the true side
            pass
        self.solver.add(cond if can_t else z3.Not(cond))
        return can_t

    def assume(self, cond, why=''):
        if isinstance(cond, bool):
            if not cond:
                raise ReplayMismatch(f"assumption not met by the model: {why}")
            return
        if self._check(zof(cond)) != z3.sat:
            raise ReplayMismatch(f"assumption not met by the model: {why}")
        self.solver.add(zof(cond))

    def check(self, label, cond, info=None):
        if isinstance(cond, bool):
            ok = cond
        else:
            ok = self._check(z3.Not(zof(cond))) == z3.unsat
        if ok:
            self.passed.append(label)
        else:
            self.failures.append((label, repr(info() if callable(info) else info)))
        return ok


def replay_pinned(scenario, params, model):
    global CUR
    env = PinnedEnv(model)
    CUR = env
    exc = None
    try:
        scenario(env, **params)
    except (ReplayMismatch, Inconclusive):
        raise
    except Exception as err:
        exc = err
    finally:
        CUR = None
    return env.failures, exc, env


class _Alarm(KeyboardInterrupt):
    """asyncio re-raises KeyboardInterrupt from callbacks and tasks instead of swallowing it"""


def replay(scenario, params, model, timeout_s=60):
    """Run the scenario concretely. Returns (failures, exception_or_None, env).
    A wall-time limit guards against float artefacts of the concrete run (e.g. a zero-time busy
    loop on the virtual clock caused by IEEE rounding, which the exact symbolic run cannot have)."""
    global CUR
    import signal
    env = ConcreteEnv(model)
    CUR = env
    exc = None

    def on_alarm(signum, frame):
        raise _Alarm()
    old = signal.signal(signal.SIGALRM, on_alarm)
    signal.setitimer(signal.ITIMER_REAL, timeout_s)
    try:
        scenario(env, **params)
    except _Alarm:
        raise ReplayTimeout(f"concrete replay did not finish within {timeout_s} s")
    except ReplayMismatch:
        raise
    except Exception as err:
        exc = err
    finally:
        signal.setitimer(signal.ITIMER_REAL, 0)
        signal.signal(signal.SIGALRM, old)
        CUR = None
    return env.failures, exc, env
