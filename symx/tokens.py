"""
Numeral tokens: let a symbolic number travel through real string code.

SymInt/SymReal.__format__/__str__ (via env.format_hook) return a unique digit string; the
module-level shims for int()/float() installed in the module under test map such a string back
to its z3 term.  In between the *real* code (f-strings, str.join, re.fullmatch, str.replace,
str.split) works on the token text.  Sound as long as that code treats digit strings uniformly,
which is checked on the parsed regular expressions (rez3.digit_atoms_unbounded).
"""
import builtins
import re
import z3
from . import core


class Tokens:
    def __init__(self, env):
        self.env = env
        self.map = {}        # text -> proxy (value of the whole text)
        self.frac = {}       # text -> (SymInt k, p)  meaning k / 10**p when used after a decimal mark
        self.n = 0

    def _new(self):
        self.n += 1
        return str(7000000 + self.n * 13)

    def hook(self, proxy, spec):
        if isinstance(proxy, core.SymInt):
            if spec in ('', 'd'):
                t = self._new()
                self.map[t] = proxy
                return t
            m = re.fullmatch(r'0(\d+)d', spec)
            if m:
                t = self._new()
                self.frac[t] = (proxy, int(m.group(1)))
                return t
            raise core.Concretised(f"format spec {spec!r} for a symbolic int")
        if isinstance(proxy, core.SymReal):
            m = re.fullmatch(r'\.(\d+)f', spec)
            if not m:
                raise core.Concretised(f"format spec {spec!r} for a symbolic real")
            p = int(m.group(1))
            # '%.pf' renders the value rounded to p places; the harness must have established
            # that the value already is a multiple of 10**-p (checked there), so the text
            # denotes the value exactly
            self.env.note('token-real')
            t = self._new() if p == 0 else self._new() + '.' + self._new()
            self.map[t] = proxy
            self.exact_claims.append((proxy, p))
            return t
        return None

    exact_claims: list

    def to_number(self, text, want_float):
        s = text.strip()
        if s in self.map:
            v = self.map[s]
            if want_float and isinstance(v, core.SymInt):
                return core.SymReal(z3.ToReal(v.z))
            return v
        if '.' in s:
            a, b = s.split('.', 1)
            if (a in self.map or a.isdigit()) and b in self.frac:
                k, p = self.frac[b]
                ip = self.map[a] if a in self.map else int(a)
                return ip + k / (10 ** p) if not isinstance(ip, int) else core.SymReal(
                    z3.ToReal(z3.IntVal(ip)) + z3.ToReal(k.z) / (10 ** p))
        if any(t in s for t in list(self.map) + list(self.frac)):
            raise core.Concretised(f"token inside an unrecognised numeral {text!r}")
        return None


def _shim(base, conv, extra_types):
    """Stand-in for a builtin type: isinstance/issubclass behave like the builtin (plus the
    proxy types), calling it converts via conv."""
    class Meta(type):
        def __instancecheck__(cls, x):
            return isinstance(x, base) or isinstance(x, extra_types)

        def __subclasscheck__(cls, c):
            return issubclass(c, base)

        def __call__(cls, *a, **k):
            return conv(*a, **k)
    return Meta(base.__name__, (), {})


class Shims:
    """Context manager installing int/float shims into a module's globals."""

    def __init__(self, module, tokens: Tokens, names=('int', 'float')):
        self.module = module
        self.tok = tokens
        self.names = names
        tokens.exact_claims = []

    def _int(self, x=0, *a):
        if isinstance(x, core.SymInt):
            return x
        if isinstance(x, core.SymReal):
            return x.__trunc__()
        if isinstance(x, str) and not a:
            v = self.tok.to_number(x, False)
            if v is not None:
                if isinstance(v, core.SymReal):
                    raise ValueError("invalid literal for int()")
                return v
        return builtins.int(x, *a)

    def _float(self, x=0.0):
        if isinstance(x, core.SymReal):
            return x
        if isinstance(x, core.SymInt):
            return core.SymReal(z3.ToReal(x.z))
        if isinstance(x, str):
            v = self.tok.to_number(x, True)
            if v is not None:
                return v
        return builtins.float(x)

    def __enter__(self):
        self.saved = {}
        if 'int' in self.names:
            self.module.int = _shim(builtins.int, self._int, (core.SymInt,))
        if 'float' in self.names:
            self.module.float = _shim(builtins.float, self._float, ())
        return self

    def __exit__(self, *exc):
        for n in self.names:
            if n in vars(self.module):
                delattr(self.module, n)
        return False
