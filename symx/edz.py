"""Helpers shared by the harnesses: fresh circuits, silent logging, probe blocks."""
from __future__ import annotations

import asyncio
import logging
import sys
import warnings

import os as _os
# the tree under verification: /repo, always, for the registered commands; VERIF_REPO is set only by
# tools/seed_eval*.sh to evaluate a seeded change in a scratch worktree instead of patching /repo
REPO = _os.environ.get('VERIF_REPO', '/repo').rstrip('/')
assert any(p.rstrip('/') == REPO for p in sys.path), f"edzed must be imported from {REPO}"
import edzed                                           # noqa: E402
from edzed import simulator as _sim                    # noqa: E402

assert edzed.__file__.startswith(REPO + '/'), edzed.__file__

_done = False


def setup_once():
    """Process-wide preparation (every stub listed here is part of each claim)."""
    global _done
    if _done:
        return
    _done = True
    # "formatting and logging get empty bodies"
    logging.disable(logging.CRITICAL)
    warnings.simplefilter('ignore')
    # deterministic iteration order of sets of blocks across re-executions
    edzed.Block.__hash__ = lambda self: hash(self.name)


def fresh_circuit():
    """A brand new Circuit as the current one (reset_circuit() would touch the old one)."""
    setup_once()
    _sim._current_circuit = _sim.Circuit()
    return _sim._current_circuit


class Probe(edzed.SBlock):
    """Destination block recording every event it receives (type, data) in .log."""

    def __init__(self, *args, clock=None, **kwargs):
        self.log = []
        self._clock = clock
        super().__init__(*args, **kwargs)

    def init_regular(self):
        self.set_output(0)

    def _event(self, etype, data):
        t = self._clock() if self._clock is not None else None
        self.log.append((etype, dict(data)) if t is None else (t, etype, dict(data)))
        return ('probe', len(self.log))


class Settable(edzed.SBlock):
    """Minimal SBlock whose output is assigned directly (no validation, no events of its own)."""

    def __init__(self, *args, init=edzed.UNDEF, **kwargs):
        self._init = init
        super().__init__(*args, **kwargs)

    def init_regular(self):
        if self._init is not edzed.UNDEF:
            self.set_output(self._init)

    def _event_set(self, *, value, **_):
        self.set_output(value)
        return True


def loop_time():
    return asyncio.get_running_loop().time()


def live_block_timers(loop, circuit):
    """Scheduled, un-cancelled TimerHandles whose callback is bound to a block of circuit."""
    out = []
    blocks = set(id(b) for b in circuit.getblocks())
    for h in loop.live_timers():
        cb = getattr(h, '_callback', None)
        owner = getattr(cb, '__self__', None)
        if owner is not None and id(owner) in blocks:
            out.append(h)
    return out


class StubQueue:
    """List-backed stand-in for Circuit.sblock_queue when no event loop is involved."""

    def __init__(self):
        self.items = []

    def put_nowait(self, x):
        self.items.append(x)

    def empty(self):
        return not self.items

    def get_nowait(self):
        return self.items.pop(0)

    def qsize(self):
        return len(self.items)


def sync_circuit():
    """Fresh circuit usable without an event loop (stub change queue)."""
    circ = fresh_circuit()
    circ.sblock_queue = StubQueue()
    return circ


def start_sync(circ, strict=False):
    """The synchronous part of run_forever()'s start sequence, using the real methods:
    resolve names, finalize, start() every block, initialise all SBlocks.
    strict=False: blocks may stay uninitialised (they are initialised by the harness later)."""
    circ._check_persistent_data()
    circ._resolver.resolve()
    circ.finalize()
    for blk in circ.getblocks():
        blk.start()
    circ._init_sblocks_sync_1()
    if strict:
        circ._init_sblocks_sync_2()
    else:
        for blk in circ.getblocks(edzed.SBlock):
            circ.init_sblock(blk, full=False)


class SinkProbe(edzed.SBlock):
    """Probe appending (name, etype, data) to a shared list; handler result is configurable."""

    def __init__(self, *args, sink, **kwargs):
        self.sink = sink
        super().__init__(*args, **kwargs)

    def init_regular(self):
        self.set_output(0)

    def _event(self, etype, data):
        self.sink.append((self.name, etype, dict(data)))
        return ('probe', self.name, len(self.sink))


class WallClock:
    """time.time() as seen by edzed: EPOCH + loop time + offset (offset models downtime / clock jumps).
    Installed by rebinding the module-global name 'time' in the edzed modules that read the clock."""
    EPOCH = 1_700_000_000.0
    MODULES = ('edzed.addons', 'edzed.fsm', 'edzed.simulator', 'edzed.utils.looptimes')

    def __init__(self):
        self.offset = 0.0
        self._saved = {}

    def time(self):
        try:
            lt = asyncio.get_running_loop().time()
        except RuntimeError:
            lt = self.frozen_loop_time
        return self.EPOCH + lt + self.offset

    frozen_loop_time = 0.0

    def __enter__(self):
        import importlib
        import types
        ns = types.SimpleNamespace(time=self.time)
        for name in self.MODULES:
            mod = importlib.import_module(name)
            self._saved[name] = mod.time
            mod.time = ns
        return self

    def __exit__(self, *exc):
        import importlib
        for name, t in self._saved.items():
            importlib.import_module(name).time = t
        return False
