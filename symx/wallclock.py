"""
Symbolic wall clock for the cron service: what Cron.dtnow() returns.

SymDateTime = concrete base date + integer microseconds since the base midnight (a z3 Int term,
possibly beyond one day: the day roll-over is decided by forking, so the calendar date is
concrete on every path while the time of day stays symbolic).  Comparisons against the REAL
datetime.time / datetime.datetime objects that edzed keeps as configured endpoints are answered
through Python's reflected-operand protocol.
"""
import asyncio
import datetime as dt
import z3
from . import core
from .core import SymInt, SymReal, SymBool, _wrap

US_DAY = 86_400_000_000


def _t_us(t):
    return ((t.hour * 60 + t.minute) * 60 + t.second) * 1_000_000 + t.microsecond


def _z(x):
    if isinstance(x, SymInt):
        return x.z
    return z3.IntVal(int(x))


class SymTime:
    """time of day; us = microseconds since midnight (int or SymInt)"""
    tzinfo = None

    def __init__(self, us):
        self.us = us

    @property
    def hour(self):
        return self.us // 3_600_000_000

    @property
    def minute(self):
        return (self.us // 60_000_000) % 60

    @property
    def second(self):
        return (self.us // 1_000_000) % 60

    @property
    def microsecond(self):
        return self.us % 1_000_000

    def _c(self, o, f):
        if isinstance(o, dt.time):
            return f(self.us, _t_us(o))
        if isinstance(o, SymTime):
            return f(self.us, o.us)
        return NotImplemented

    def __lt__(s, o): return s._c(o, lambda a, b: a < b)
    def __le__(s, o): return s._c(o, lambda a, b: a <= b)
    def __gt__(s, o): return s._c(o, lambda a, b: a > b)
    def __ge__(s, o): return s._c(o, lambda a, b: a >= b)

    def __eq__(s, o):
        r = s._c(o, lambda a, b: core.eq_(a, b))
        return False if r is NotImplemented else r

    def __hash__(self):
        raise core.Concretised("hash of a symbolic time of day")

    def __repr__(self):
        return f"<symtime {self.us}>"


class SymDateTime:
    def __init__(self, base: dt.date, us):
        self.base, self.us = base, us

    def _day(self):
        d = 0
        while not (self.us < (d + 1) * US_DAY):       # forks at midnight crossings
            d += 1
            if d > 40:
                raise core.Concretised("wall clock ran away")
        return d

    def time(self):
        return SymTime(self.us - self._day() * US_DAY)

    def date(self):
        return self.base + dt.timedelta(days=self._day())

    @property
    def year(self): return self.date().year

    @property
    def month(self): return self.date().month

    @property
    def day(self): return self.date().day

    def isoweekday(self):
        return self.date().isoweekday()

    def _us_of(self, o):
        return (o.date() - self.base).days * US_DAY + _t_us(o.time())

    def _c(self, o, f):
        if isinstance(o, dt.datetime):
            return f(self.us, self._us_of(o))
        if isinstance(o, SymDateTime):
            return f(self.us, o.us + (o.base - self.base).days * US_DAY)
        return NotImplemented

    def __lt__(s, o): return s._c(o, lambda a, b: a < b)
    def __le__(s, o): return s._c(o, lambda a, b: a <= b)
    def __gt__(s, o): return s._c(o, lambda a, b: a > b)
    def __ge__(s, o): return s._c(o, lambda a, b: a >= b)

    def __repr__(self):
        return f"<symdt {self.base}+{self.us}us>"


class Clock:
    """wall clock = base date midnight + w0 microseconds + loop time (+ offset for clock jumps);
    every read is truncated to whole microseconds (like datetime.now())."""

    def __init__(self, env, base, w0):
        self.env, self.base, self.w0 = env, base, w0
        self.offset_us = 0
        self.reads = 0

    def now_us(self):
        lt = asyncio.get_running_loop().time()
        self.reads += 1
        return self.w0 + self.offset_us + self.env.floor(lt * 1_000_000)

    def dtnow(self):
        return SymDateTime(self.base, self.now_us())
