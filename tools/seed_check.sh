#!/bin/bash
# seed_check.sh <seed-id> <property> [vcheck args]: run the registered quick check against a stored seeded change
ID=$1; P=$2; shift 2
cd /verif
git -C /repo apply /verif/seeded/$ID/patch.diff || { echo "cannot apply"; exit 7; }
timeout 1500 /verif/bin/vcheck $P --tier quick --no-evidence "$@" > /tmp/sc-$ID.log 2>&1; R=$?
git -C /repo checkout -- .
V=$(grep -c "^VIOLATION" /tmp/sc-$ID.log)
echo "$ID vs $P: exit $R, VIOLATION lines $V"; grep -E "failed check|exception reproduced|INCONCLUSIVE" /tmp/sc-$ID.log | head -3 | cut -c1-400
/verif/.venv/bin/python - "$ID" "$P" "$R" "$V" <<'PY'
import json, sys
i, p, r, v = sys.argv[1:5]
path = f'/verif/seeded/{i}/meta.json'
m = json.load(open(path))
m.setdefault('checks_quick', {})[p] = {'exit': int(r), 'violation_lines': int(v)}
json.dump(m, open(path, 'w'), indent=1)
PY
git -C /repo status --short
