#!/bin/bash
# seed_try.sh <seed-id> <property> [vcheck args]: run a check against a stored seeded change in a scratch worktree
# (/repo untouched); updates seeded/<id>/meta.json when the whole quick tier was run (no --only)
ID=$1; P=$2; shift 2
WT=/tmp/st-$ID-$$
git -C /repo worktree add -q --detach $WT HEAD || exit 9
git -C $WT apply /verif/seeded/$ID/patch.diff || { echo "cannot apply"; git -C /repo worktree remove --force $WT; exit 7; }
VERIF_REPO=$WT timeout 1800 /verif/bin/vcheck $P --tier quick --no-evidence "$@" > /tmp/st-$ID.log 2>&1; R=$?
git -C /repo worktree remove --force $WT
V=$(grep -c "^VIOLATION" /tmp/st-$ID.log)
echo "$ID vs $P: exit $R, VIOLATION lines $V"; grep -E "^\[C|failed check|exception reproduced|^  - " /tmp/st-$ID.log | head -4 | cut -c1-400
case "$*" in *--only*) ;; *)
/verif/.venv/bin/python - "$ID" "$P" "$R" "$V" <<'PY'
import json, sys
i, p, r, v = sys.argv[1:5]
path = f'/verif/seeded/{i}/meta.json'
m = json.load(open(path))
m.setdefault('checks_quick_now', {})[p] = {'exit': int(r), 'violation_lines': int(v)}
json.dump(m, open(path, 'w'), indent=1)
PY
;; esac
