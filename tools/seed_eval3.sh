#!/bin/bash
# seed_eval3.sh <seed-id> <out-dir with patch.diff demo.py> <property> [extra properties to run...]
# Like seed_eval.sh, but /repo is never touched: the change is confirmed AND the registered quick check(s) are run
# in a scratch worktree of /repo's HEAD (VERIF_REPO points the check at it), which is removed afterwards.
set -u
ID=$1; OUT=$2; PROP=$3; shift 3; EXTRA="$*"
WT=/tmp/ev-$ID
git -C /repo worktree remove --force $WT >/dev/null 2>&1
git -C /repo worktree add -q --detach $WT HEAD || exit 9
cd $WT
if ! git apply --check $OUT/patch.diff 2>/dev/null; then echo "PATCH DOES NOT APPLY to HEAD"; cd /; git -C /repo worktree remove --force $WT; exit 8; fi
PYTHONPATH=$WT timeout 120 /venv/bin/python $OUT/demo.py >/tmp/ev-$ID.demo0 2>&1; D0=$?
git apply $OUT/patch.diff
PYTHONPATH=$WT timeout 120 /venv/bin/python $OUT/demo.py >/tmp/ev-$ID.demo1 2>&1; D1=$?
/venv/bin/python -m pytest -q -p no:cacheprovider --timeout=900 -q > /tmp/ev-$ID.tests 2>&1; T=$?
STILL=""
for t in $(grep -E "^FAILED" /tmp/ev-$ID.tests | grep -v test_executor | awk '{print $2}'); do
   /venv/bin/python -m pytest -q -p no:cacheprovider --timeout=900 -q "$t" > /tmp/ev-$ID.retest 2>&1 || \
   /venv/bin/python -m pytest -q -p no:cacheprovider --timeout=900 -q "$t" > /tmp/ev-$ID.retest 2>&1 || STILL="$STILL $t"
done
find $WT -name __pycache__ -prune -exec rm -rf {} + 2>/dev/null
cd /verif
echo "$ID: demo on original: exit $D0 ; demo with change: exit $D1 ; tests exit $T ; failing after re-run: ${STILL:-none}"
RES=""
for P in $PROP $EXTRA; do
  VERIF_REPO=$WT timeout 1800 /verif/bin/vcheck $P --tier quick --no-evidence > /tmp/ev-$ID.$P.log 2>&1; R=$?
  V=$(grep -c "^VIOLATION" /tmp/ev-$ID.$P.log)
  echo "$ID: check $P: exit $R, VIOLATION lines $V"; grep -E "failed check|exception reproduced" /tmp/ev-$ID.$P.log | head -2 | cut -c1-300
  RES="$RES \"$P\": {\"exit\": $R, \"violation_lines\": $V},"
done
git -C /repo worktree remove --force $WT
mkdir -p /verif/seeded/$ID
cp $OUT/patch.diff /verif/seeded/$ID/patch.diff
cp $OUT/demo.py /verif/seeded/$ID/demo.py
[ -f $OUT/notes.md ] && cp $OUT/notes.md /verif/seeded/$ID/notes.md
cat > /verif/seeded/$ID/meta.json <<J
{
 "id": "$ID",
 "breaks_property": "$PROP",
 "origin": "independent sub-agent given only the property text and a scratch worktree",
 "base_commit": "$(git -C /repo log --format=%h -1)",
 "confirmed": {"demo_exit_on_original": $D0, "demo_exit_with_change": $D1, "test_suite_exit_with_change": $T,
               "tests_failing_after_rerun": "${STILL:-none}"},
 "checks_quick": { ${RES%,} },
 "needs_to_manifest": "see notes.md",
 "ran": "tools/seed_eval3.sh $ID $OUT $PROP $EXTRA  (scratch worktree of /repo HEAD + VERIF_REPO; /repo itself untouched)"
}
J
