"""Regenerate the scenario table of DESIGN.md section 0.1 from the harness modules."""
import importlib, re, sys
sys.path.insert(0, '/verif'); sys.path.insert(0, '/repo')
rows = []
for i in range(1, 21):
    p = f'C{i:02d}'
    m = importlib.import_module(f'harness.{p}')
    scen = sorted({s['scenario'] for t in ('quick', 'thorough') for s in m.shards(t)})
    rows.append(f"| {p} | `{', '.join(scen)}` | {len(m.shards('quick'))} / {len(m.shards('thorough'))} |")
table = "| property | scenario functions (harness/Cxx.py) | shards quick / thorough |\n|---|---|---|\n" + "\n".join(rows) + "\n"
path = '/verif/DESIGN.md'
s = open(path).read()
a = s.index("| property | scenario functions (harness/Cxx.py)")
b = s.index("\n\n", a)
s = s[:a] + table.rstrip('\n') + s[b:]
open(path, 'w').write(s)
print(table)
