"""Regenerate MANIFEST.json from the harness modules (run with the overlay interpreter)."""
import importlib, json, os, sys, glob
ROOT = os.path.dirname(os.path.dirname(os.path.abspath(__file__)))
sys.path[:0] = ['/repo', ROOT]
props = [json.loads(l) for l in open(os.path.join(ROOT, 'properties.jsonl'))]
na_path = os.path.join(ROOT, 'not_applicable.json')
na = json.load(open(na_path)) if os.path.exists(na_path) else {}
checks, not_applicable = [], []
for p in props:
    pid = p['id']
    if os.path.exists(os.path.join(ROOT, 'harness', pid + '.py')) and pid not in na:
        m = importlib.import_module('harness.' + pid)
        checks.append({
            'property_id': pid,
            'quick_cmd': f'bin/vcheck {pid} --tier quick',
            'thorough_cmd': f'bin/vcheck {pid} --tier thorough',
            'evidence_file': f'/verif/evidence/{pid}.json',
            'replay_cmd_template': f'bin/vcheck {pid} --replay {{path}}',
            'engine': 'symx',
            'level_claimed': {
                'category': getattr(m, 'LEVEL', 'model_checking'),
                'text': getattr(m, 'LEVEL_TEXT', (m.__doc__ or '').strip().split('\n\n')[0]),
                'design_ref': f'DESIGN.md section 5, {pid}',
            },
            'level_note': getattr(m, 'LEVEL_NOTE',
                'bounded: see evidence.coverage.bounds / outside_the_bounds; trusted: z3 (unsat verdicts), '
                'CPython/asyncio below edzed, the stubs listed in evidence.coverage.stubs; every sat verdict '
                'is replayed concretely on the real code before it is reported'),
            'technique': getattr(m, 'TECHNIQUE',
                'symbolic execution of the real edzed functions on z3-backed proxy values (symx); '
                'property negation discharged by z3 per path region (a sample of the unsat verdicts re-decided by cvc5 and z3 4.8); counterexamples replayed concretely'),
        })
    else:
        not_applicable.append({'property_id': pid, 'reason': na.get(pid, 'check not built yet (work in progress)')})
man = {
    'version': 1,
    'setup_cmd': 'bin/setup',
    'hooks': {
        'guard': 'EDZED_VERIF',
        'enable': 'no source hooks are needed: harnesses import edzed from /repo and install their stubs '
                  '(virtual-time loop, clocks, set order) from outside; bin/vcheck exports EDZED_VERIF=1 (unused by /repo)',
        'baseline_off_cmd': 'cd /repo && /venv/bin/python -m pytest -ra -q -p no:cacheprovider --timeout=900 --continue-on-collection-errors',
        'source_commits': [],
        'add_only': True,
    },
    'engines': [
        {'name': 'symx', 'path': '/verif/symx', 'serves_properties': [c['property_id'] for c in checks],
         'kind_free_text': 'in-house symbolic executor for Python on the z3 API: real edzed functions run on '
                           'proxy values, branches decided by the solver, DFS by re-execution, virtual-time '
                           'asyncio loop with a symbolic clock; concrete replay of every counterexample'},
    ],
    'checks': checks,
    'not_applicable': not_applicable,
    'notes': 'See DESIGN.md. Exit codes of every check: 0 held, 1 replay-confirmed violation, 2 inconclusive '
             '(never reported as success). known_findings.json lists fixed/known findings: F1-F25 and F27 were repaired in /repo '
             '("fix:" commits), F26 (C12: OutputAsync clean-up exceeds stop_timeout in wait mode / start mode with stop_data) '
             'is a known finding: the C12 check prints one KNOWN-FINDING line for it and exits 0. A sample of the unsat '
             'verdicts of every shard is re-decided by the cvc5 and z3 4.8 binaries (evidence.coverage.solver_crosscheck).',
}
json.dump(man, open(os.path.join(ROOT, 'MANIFEST.json'), 'w'), indent=1)
print('checks:', [c['property_id'] for c in checks]); print('n/a:', [n['property_id'] for n in not_applicable])
