import re, time, z3
try:
    import re._parser as sre_parse, re._constants as C
except ImportError:
    import sre_parse; import sre_constants as C
from edzed.utils import timeunits as tu

def cls_to_re(items, ignorecase):
    alts = []
    for op, av in items:
        if op is C.LITERAL: alts.append(lit(av, ignorecase))
        elif op is C.RANGE: alts.append(z3.Range(chr(av[0]), chr(av[1])))
        elif op is C.CATEGORY:
            alts.append(cat(av))
        else: raise NotImplementedError(op)
    return alts[0] if len(alts)==1 else z3.Union(*alts)
def cat(av):
    if av is C.CATEGORY_DIGIT: return z3.Range('0','9')
    if av is C.CATEGORY_SPACE: return z3.Union(*[z3.Re(c) for c in ' \t\n\r\x0b\x0c'])
    raise NotImplementedError(av)
def lit(code, ic):
    ch = chr(code)
    if ic and ch.lower()!=ch.upper(): return z3.Union(z3.Re(ch.lower()), z3.Re(ch.upper()))
    return z3.Re(ch)
def seq(parts):
    parts=[p for p in parts]
    if not parts: return z3.Re("")
    return parts[0] if len(parts)==1 else z3.Concat(*parts)
def tr(tree, ic):
    out=[]
    for op, av in tree:
        if op is C.LITERAL: out.append(lit(av, ic))
        elif op is C.IN: out.append(cls_to_re(av, ic))
        elif op is C.MAX_REPEAT or op is C.MIN_REPEAT:
            lo, hi, sub = av; r = tr(sub, ic)
            if hi is C.MAXREPEAT:
                out.append(z3.Star(r) if lo==0 else z3.Plus(r) if lo==1 else z3.Concat(z3.Loop(r,lo,lo), z3.Star(r)))
            elif lo==0 and hi==1: out.append(z3.Option(r))
            else: out.append(z3.Loop(r, lo, hi))
        elif op is C.SUBPATTERN: out.append(tr(av[3], ic))
        elif op is C.BRANCH: out.append(z3.Union(*[tr(b, ic) for b in av[1]]))
        elif op is C.CATEGORY: out.append(cat(av))
        else: raise NotImplementedError(op)
    return seq(out)
def to_z3(pat):
    tree = sre_parse.parse(pat.pattern, pat.flags)
    return tr(tree, bool(pat.flags & re.IGNORECASE))

impl = to_z3(tu._RE_DURATION)
# independent spec from the docs: optional D d, H h, M m, S [s], ws anywhere between, case-insens.
D = z3.Range('0','9'); NUM = z3.Concat(z3.Plus(D), z3.Option(z3.Concat(z3.Union(z3.Re('.'), z3.Re(',')), z3.Plus(D))))
WS = z3.Star(z3.Union(*[z3.Re(c) for c in ' \t\n\r\x0b\x0c']))
def unit(l): return z3.Option(z3.Concat(NUM, WS, z3.Union(z3.Re(l), z3.Re(l.upper()))))
spec = z3.Concat(WS, unit('d'), WS, unit('h'), WS, unit('m'), WS, z3.Option(z3.Concat(NUM, WS, z3.Option(z3.Union(z3.Re('s'), z3.Re('S'))))), WS)
s = z3.String('s')
for name,(a,b) in {'equiv':(impl,spec)}.items():
    sol = z3.Solver(); sol.set('timeout', 60000)
    sol.add(z3.InRe(s,a) != z3.InRe(s,b))
    t=time.time(); r=sol.check(); print(name, r, round(time.time()-t,2), sol.model() if r==z3.sat else '')
# mutation: spec without comma
NUM2 = z3.Concat(z3.Plus(D), z3.Option(z3.Concat(z3.Re('.'), z3.Plus(D))))
sol = z3.Solver(); sol.add(z3.InRe(s, impl) != z3.InRe(s, z3.Concat(WS, NUM2, WS))); sol.add(z3.Length(s) <= 6, z3.InRe(s, z3.Concat(WS,NUM,WS)))
t=time.time(); r=sol.check(); print('mut', r, round(time.time()-t,2), sol.model() if r==z3.sat else '')
