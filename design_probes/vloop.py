"""Virtual-time asyncio loop: pure-Python, time advances only when nothing is ready."""
import asyncio, heapq
from asyncio import base_events

class VLoop(base_events.BaseEventLoop):
    def __init__(self):
        super().__init__()
        self._vtime = 0
    def time(self): return self._vtime
    def _process_events(self, event_list): pass
    def _write_to_self(self): pass
    def _run_once(self):
        sched = self._scheduled
        while sched and sched[0]._cancelled:
            self._timer_cancelled_count -= 1
            h = heapq.heappop(sched); h._scheduled = False
        if not self._ready and not self._stopping:
            if not sched:
                raise RuntimeError("virtual loop deadlock: nothing scheduled")
            when = sched[0]._when
            if when > self._vtime:
                self._vtime = when
        while sched:
            h = sched[0]
            if h._when > self._vtime:
                break
            h = heapq.heappop(sched); h._scheduled = False
            self._ready.append(h)
        for _ in range(len(self._ready)):
            h = self._ready.popleft()
            if not h._cancelled:
                h._run()
        h = None

def run(coro):
    loop = VLoop()
    try:
        return loop.run_until_complete(coro)
    finally:
        loop.close()
