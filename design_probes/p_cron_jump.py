import logging; logging.disable(logging.CRITICAL)
import asyncio, time, datetime as dt, types
from fractions import Fraction
import edzed
from edzed import simulator
from edzed.blocklib import cron
import vloop
BASE = dt.datetime(2024, 6, 1, 9, 59, 50)
jump = [0]
async def scenario():
    simulator._current_circuit = simulator.Circuit(); c = edzed.get_circuit()
    ts = edzed.TimeSpan('ts', span=())       # nothing scheduled: cron has no alarms at all
    loop = asyncio.get_running_loop()
    cron.Cron.dtnow = lambda self: BASE + dt.timedelta(seconds=float(loop.time()) + jump[0])
    cron.time = types.SimpleNamespace(sleep=lambda x: setattr(loop, '_vtime', loop._vtime + x))
    task = asyncio.create_task(c.run_forever()); await c.wait_init()
    await asyncio.sleep(5); jump[0] = 60        # the system clock jumps forward by 1 minute
    await asyncio.sleep(30)
    print("error:", repr(c.error), "ready:", c.is_ready())
    try: await c.shutdown()
    except Exception as e: print("shutdown raised", type(e).__name__, e)
vloop.run(scenario())
