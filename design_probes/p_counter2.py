import logging; logging.disable(logging.CRITICAL)
import edzed
from edzed import simulator
from p_counter import mk

def step7(init: int, a: int, b: int, v: int) -> int:
    """
    post: _ == (v - b) % 7
    """
    cnt = mk(7, init)
    assert cnt.output == init % 7
    r = cnt.event('inc', amount=a)
    assert r == (init + a) % 7 == cnt.output
    r = cnt.event('put', value=v)
    r = cnt.event('dec', amount=b)
    return cnt.output

def stepNone(init: int, a: int, b: int) -> int:
    """
    post: _ == init + a - b
    """
    cnt = mk(None, init)
    r = cnt.event('inc', amount=a)
    r = cnt.event('dec', amount=b)
    return cnt.output
