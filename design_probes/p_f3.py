"""Candidate F3: timed state kept after a rejected timed event; snapshot; restart."""
import logging; logging.disable(logging.CRITICAL)
import asyncio, copy, types
import edzed
from edzed import simulator, fsm, addons
from edzed.utils import looptimes
import vloop

EPOCH = 1_700_000_000.0
def install_clock(loop, offset):
    ns = types.SimpleNamespace(time=lambda: EPOCH + offset + loop.time())
    for m in (fsm, addons, simulator, looptimes): m.time = ns

class F(edzed.FSM):
    STATES = ['idle']
    TIMERS = {'armed': (2.0, 'tick')}
    EVENTS = [['go', None, 'armed'], ['tick', ['armed'], None]]   # the timed event is explicitly rejected

async def run1(storage):
    simulator._current_circuit = simulator.Circuit(); c = edzed.get_circuit()
    c.set_persistent_data(storage); f = F('f', persistent=True)
    install_clock(asyncio.get_running_loop(), 0.0)
    asyncio.create_task(c.run_forever()); await c.wait_init()
    edzed.ExtEvent(f, 'go').send()
    await asyncio.sleep(5.0)                       # timer fired at 2.0, 'tick' rejected, still 'armed'
    print("run1 t=5: state", f.state, "get_state", f.get_state(), "live handles",
          [h for h in asyncio.get_running_loop()._scheduled if not h._cancelled and getattr(h._callback, '__self__', None) is f])
    edzed.ExtEvent(f, 'tick').send()               # any event -> state saved (sync_state)
    snap = copy.deepcopy(storage)
    await c.shutdown()
    return snap, copy.deepcopy(storage)

async def run2(storage, downtime):
    simulator._current_circuit = simulator.Circuit(); c = edzed.get_circuit()
    c.set_persistent_data(storage); f = F('f', persistent=True)
    install_clock(asyncio.get_running_loop(), 5.0 + downtime)
    asyncio.create_task(c.run_forever()); await c.wait_init()
    print("run2 after restart: state", f.state)
    await c.shutdown()

snap, at_stop = vloop.run(run1({}))
print("snapshot", snap)
vloop.run(run2(snap, 1.0)); vloop.run(run2(at_stop, 1.0))
