"""P12: OutputAsync under the prototype engine: symbolic arrival gaps, run durations, guard time."""
import logging; logging.disable(logging.CRITICAL)
import asyncio, sys, time, z3
import edzed
from edzed import simulator
import vloop, symx0
from symx0 import SymReal

class Probe(edzed.SBlock):
    def init_regular(self): self.set_output(0); self.log = []
    def _event(self, etype, data):
        self.log.append((asyncio.get_running_loop().time(), etype, data['put']['value']))

async def scenario(mode, guard, gaps, durs):
    simulator._current_circuit = simulator.Circuit(); c = edzed.get_circuit()
    p = Probe('p'); runs = []
    loop = asyncio.get_running_loop()
    async def coro(value):
        runs.append(('start', loop.time(), value))
        try:
            await asyncio.sleep(durs[value])
        except asyncio.CancelledError:
            runs.append(('cancelled', loop.time(), value)); raise
        runs.append(('end', loop.time(), value))
    oa = edzed.OutputAsync('oa', coro=coro, mode=mode, guard_time=guard,
        on_success=edzed.Event(p, 'ok'), on_cancel=edzed.Event(p, 'cancel'), on_error=edzed.Event(p, 'err'))
    asyncio.create_task(c.run_forever()); await c.wait_init()
    ev = edzed.ExtEvent(oa)
    for i, g in enumerate(gaps):
        await asyncio.sleep(g)
        ev.send(i)
    await asyncio.sleep(1000)
    out = oa.output
    await c.shutdown()
    return p.log, runs, out

def run_mode(mode, with_guard, n):
    def fn(*a):
        guard = a[0] if with_guard else None
        gaps = a[1:1+n]; durs = a[1+n:]
        return vloop.run(scenario(mode, guard, gaps, durs))
    def mk(ctx):
        vs = [z3.Real('g')] + [z3.Real(f'gap{i}') for i in range(n)] + [z3.Real(f'dur{i}') for i in range(n)]
        for v in vs[1:1+n]: ctx.solver.add(v >= 0, v <= 100)
        for v in vs[1+n:]: ctx.solver.add(v > 0, v <= 100)
        ctx.solver.add(vs[0] > 0, vs[0] <= 10)
        return tuple(SymReal(v) for v in vs)
    shapes = {}
    def prop(res, *a):
        log, runs, out = res
        k = tuple((e, v) for _, e, v in log)
        shapes[k] = shapes.get(k, 0) + 1
        # every put -> exactly one result event; output back to 0
        ok = sorted(v for _, _, v in log) == list(range(n)) and out == 0
        return ok
    t0 = time.time(); r = symx0.explore(fn, mk, prop)
    print(mode, 'guard' if with_guard else 'noguard', n, 'paths', r[0], 'viol', r[1], 'queries', r[2], 'wall', round(time.time()-t0, 2), 'shapes', len(shapes))
    return shapes

if __name__ == '__main__':
    for mode in ('wait', 'cancel', 'start'):
        for wg in (False, True):
            run_mode(mode, wg, 2)
    sh = run_mode('cancel', True, 3)
