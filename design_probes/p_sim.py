import logging; logging.disable(logging.CRITICAL)
import sys, time, z3, types
import edzed
from edzed import simulator, block
import symx0

def choose(n, label):
    """nondeterministic int in range(n), enumerated by the solver"""
    ctx = symx0.Ctx.cur
    ctx.nvar = getattr(ctx, 'nvar', 0) + 1
    v = z3.Int(f"{label}#{ctx.nvar}")
    ctx.solver.add(0 <= v, v < n)
    for i in range(n-1):
        if ctx.branch(v == i): return i
    return n-1

class ChoiceSet(set):
    def _order(self): return sorted(set.__iter__(self), key=lambda b: b.name)
    def pop(self):
        items = self._order(); x = items[choose(len(items), 'pop')]; self.discard(x); return x
    def __iter__(self):
        items = self._order()
        k = choose(len(items), 'iter') if len(items) > 1 else 0
        return iter(items[k:] + items[:k])

class Idle:
    def __await__(self): yield 'IDLE'
class StubQueue:
    def __init__(self): self.items=[]
    def put_nowait(self, x): self.items.append(x)
    def get_nowait(self): return self.items.pop(0)
    def empty(self): return not self.items
    async def get(self):
        while not self.items: await Idle()
        return self.items.pop(0)

def build(vals):
    simulator._current_circuit = simulator.Circuit()
    c = edzed.get_circuit()
    ins = [edzed.Input(f'i{k}', initdef=v) for k, v in enumerate(vals)]
    a = edzed.And('a').connect('i0', 'i1')
    o = edzed.Or('o').connect('a', '_not_i2')
    x = edzed.Xor('x').connect('a', 'o', 'i0')
    c.sblock_queue = StubQueue(); c._simtask = object()
    c.finalize()
    for b in c.getblocks(edzed.SBlock): c.init_sblock(b, full=True)
    while not c.sblock_queue.empty(): c.sblock_queue.get_nowait()
    return c, ins, (a, o, x)

def oracle(c, ins, cbs):
    i0,i1,i2 = (bool(b.output) for b in ins)
    a = i0 and i1; o = a or (not i2); x = (a + o + i0) % 2 == 1
    return [bool(b.output) for b in cbs] == [a, o, x]

def fn(v0, v1, v2, n0, n1, n2):
    simulator.set = ChoiceSet
    try:
        c, ins, cbs = build([v0, v1, v2])
        sim = c._simulate()
        assert sim.send(None) == 'IDLE'
        ok = oracle(c, ins, cbs)
        # burst: change several inputs before the simulator runs
        for b, nv in zip(ins, (n0, n1, n2)):
            b.event('put', value=nv)
        assert sim.send(None) == 'IDLE'
        ok = ok and oracle(c, ins, cbs)
        sim.close()
        return ok
    finally:
        del simulator.set

def mk(ctx):
    return tuple(symx0.SymBool(z3.Bool(n)) for n in 'v0 v1 v2 n0 n1 n2'.split())
t0=time.time(); print(symx0.explore(fn, mk, lambda ok,*a: ok), round(time.time()-t0,2))
