import logging; logging.disable(logging.CRITICAL)
import asyncio
import edzed
from edzed import simulator

class StubQueue:
    def __init__(self): self.items=[]
    def put_nowait(self, x): self.items.append(x)
    def get_nowait(self): return self.items.pop(0)
    def empty(self): return not self.items

def mk(modulo, initdef):
    simulator._current_circuit = simulator.Circuit()
    c = edzed.get_circuit()
    cnt = edzed.Counter('cnt', modulo=modulo, initdef=initdef)
    c.sblock_queue = StubQueue()
    c.finalize()
    c._simtask = object()   # is_ready() -> True
    c.init_sblock(cnt, full=True)
    return cnt

def step_inc(m: int, init: int, a: int, b: int) -> int:
    """
    pre: 1 <= m <= 10
    pre: -50 <= init <= 50 and -50 <= a <= 50 and -50 <= b <= 50
    post: _ == (init + a - b) % m
    """
    cnt = mk(m, init)
    r = cnt.event('inc', amount=a)
    r = cnt.event('dec', amount=b)
    return cnt.output

def twin(m: int, init: int, a: int, b: int) -> int:
    """
    pre: 1 <= m <= 10
    pre: -50 <= init <= 50 and -50 <= a <= 50 and -50 <= b <= 50
    post: False
    """
    cnt = mk(m, init)
    r = cnt.event('inc', amount=a)
    r = cnt.event('dec', amount=b)
    return cnt.output
