import logging; logging.disable(logging.CRITICAL)
import asyncio
import edzed
from edzed import simulator
import vloop

async def scenario(d: int, t: int):
    simulator._current_circuit = simulator.Circuit()
    c = edzed.get_circuit()
    log = []
    tm = edzed.Timer('tm', t_on=float(d) if False else d)
    task = asyncio.create_task(c.run_forever())
    await c.wait_init()
    loop = asyncio.get_running_loop()
    edzed.ExtEvent(tm, 'start').send()
    await asyncio.sleep(t)
    out = tm.output
    await c.shutdown()
    return out

def prop(d: int, t: int) -> bool:
    """
    pre: 1 <= d <= 100 and 1 <= t <= 100 and d != t
    post: _ == (t < d)
    """
    return vloop.run(scenario(d, t))
