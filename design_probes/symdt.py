"""Probe: symbolic wall clock objects (stub for datetime.now results)."""
import datetime as dt, z3
import symx0
from symx0 import SymReal, SymBool, Ctx

class SymInt(int):
    def __new__(cls, z):
        o = int.__new__(cls, 0); o.z = z; return o
    @staticmethod
    def _zz(o):
        if isinstance(o, SymInt): return o.z
        if isinstance(o, bool): return None
        if isinstance(o, int): return z3.IntVal(int(o))
        return None
    def _bin(s,o,f):
        if isinstance(o, float) and not isinstance(o, SymReal): return SymReal(f(z3.ToReal(s.z), z3.RealVal(repr(o))))
        if isinstance(o, SymReal): return SymReal(f(z3.ToReal(s.z), o.z))
        oz = SymInt._zz(o)
        return NotImplemented if oz is None else SymInt(f(s.z, oz))
    def _cmp(s,o,f):
        oz = SymInt._zz(o)
        return NotImplemented if oz is None else SymBool(f(s.z, oz))
    def __add__(s,o): return s._bin(o, lambda a,b:a+b)
    def __radd__(s,o): return s._bin(o, lambda a,b:b+a)
    def __sub__(s,o): return s._bin(o, lambda a,b:a-b)
    def __rsub__(s,o): return s._bin(o, lambda a,b:b-a)
    def __mul__(s,o): return s._bin(o, lambda a,b:a*b)
    def __rmul__(s,o): return s._bin(o, lambda a,b:b*a)
    def __truediv__(s,o): return SymReal(z3.ToReal(s.z)) / o
    def __lt__(s,o): return s._cmp(o, lambda a,b:a<b)
    def __le__(s,o): return s._cmp(o, lambda a,b:a<=b)
    def __gt__(s,o): return s._cmp(o, lambda a,b:a>b)
    def __ge__(s,o): return s._cmp(o, lambda a,b:a>=b)
    def __eq__(s,o): return s._cmp(o, lambda a,b:a==b)
    def __ne__(s,o): return s._cmp(o, lambda a,b:a!=b)
    def __hash__(s): raise TypeError("hash of symbolic int")
    def __repr__(s): return f"<symint {s.z}>"
    __str__ = __repr__
    def __format__(s, spec): return repr(s)
    def __index__(s): raise TypeError("index of symbolic int")

def _mul(a, b): return SymReal(a.z * z3.RealVal(repr(float(b))))
SymReal.__mul__ = lambda s,o: _mul(s,o) if not isinstance(o,(SymReal,SymInt)) else NotImplemented
SymReal.__rmul__ = SymReal.__mul__
SymReal.__truediv__ = lambda s,o: SymReal(s.z / z3.RealVal(repr(float(o))))
SymReal.__abs__ = lambda s: SymReal(z3.If(s.z >= 0, s.z, -s.z))

US_DAY = 86_400_000_000
def _t_us(t): return ((t.hour*60 + t.minute)*60 + t.second)*1_000_000 + t.microsecond

class SymTime:
    """time of day, microseconds since midnight as z3 Int"""
    def __init__(self, us): self.us = us      # z3 Int
    hour = property(lambda s: SymInt(s.us / 3_600_000_000))
    minute = property(lambda s: SymInt((s.us / 60_000_000) % 60))
    second = property(lambda s: SymInt((s.us / 1_000_000) % 60))
    microsecond = property(lambda s: SymInt(s.us % 1_000_000))
    def _c(s,o,f): return SymBool(f(s.us, z3.IntVal(_t_us(o)))) if isinstance(o, dt.time) else NotImplemented
    def __lt__(s,o): return s._c(o, lambda a,b:a<b)
    def __le__(s,o): return s._c(o, lambda a,b:a<=b)
    def __gt__(s,o): return s._c(o, lambda a,b:a>b)
    def __ge__(s,o): return s._c(o, lambda a,b:a>=b)
    def __eq__(s,o): return s._c(o, lambda a,b:a==b)
    def __repr__(s): return f"<symtime {s.us}>"

class SymDateTime:
    """base date (concrete) + microseconds (z3 Int, may exceed a day)"""
    def __init__(self, base: dt.date, us): self.base, self.us = base, us
    def _day(self):
        ctx = Ctx.cur; d = 0
        while not ctx.branch(self.us < (d+1)*US_DAY): d += 1
        return d
    def time(self): return SymTime(self.us - self._day()*US_DAY)
    def date(self): return self.base + dt.timedelta(days=self._day())
    month = property(lambda s: s.date().month); day = property(lambda s: s.date().day)
    def isoweekday(self): return self.date().isoweekday()
    def _us_of(self, o): return (o.date() - self.base).days*US_DAY + _t_us(o.time())
    def _c(s,o,f): return SymBool(f(s.us, z3.IntVal(s._us_of(o)))) if isinstance(o, dt.datetime) else NotImplemented
    def __lt__(s,o): return s._c(o, lambda a,b:a<b)
    def __le__(s,o): return s._c(o, lambda a,b:a<=b)
    def __gt__(s,o): return s._c(o, lambda a,b:a>b)
    def __ge__(s,o): return s._c(o, lambda a,b:a>=b)
    def __repr__(s): return f"<symdt {s.base}+{s.us}>"
