"""P13: edzed.run() + SIGTERM at a symbolic instant vs. a symbolic async-init duration; leftovers inspected."""
import logging; logging.disable(logging.CRITICAL)
import asyncio, signal, time, z3
import edzed
from edzed import simulator
import vloop, symx0
from symx0 import SymReal

class P(edzed.AddonAsync, edzed.SBlock):
    def __init__(self, *a, init_dur, **kw): self.init_dur = init_dur; self.calls = []; super().__init__(*a, **kw)
    def start(self): super().start(); self.calls.append('start')
    def stop(self): self.calls.append('stop'); super().stop()
    async def init_async(self):
        self.calls.append('init_async'); await asyncio.sleep(self.init_dur); self.set_output(1); self.calls.append('init_async_done')
    def init_regular(self):
        self.calls.append('init_regular')
        if not self.is_initialized(): self.set_output(0)
    async def stop_async(self): self.calls.append('stop_async'); await asyncio.sleep(0)

class T(edzed.FSM):
    STATES = ['a']; TIMERS = {'b': (5.0, edzed.Goto('a'))}; EVENTS = [['go', None, 'b']]

async def scenario(init_dur, tsig):
    simulator._current_circuit = simulator.Circuit(); c = edzed.get_circuit()
    p = P('p', init_dur=init_dur, init_timeout=50.0); t = T('t', initdef='b')
    rep = edzed.Repeat('rep', dest=p, etype='nop', interval=3.0)
    loop = asyncio.get_running_loop()
    async def supporting():
        await asyncio.sleep(tsig)
        signal.raise_signal(signal.SIGTERM)
        await asyncio.sleep(10_000)
    err = None
    try:
        await edzed.run(supporting())
    except BaseException as e: err = e
    leftover_tasks = [x.get_name() for x in asyncio.all_tasks() if x is not asyncio.current_task() and not x.done()]
    live_handles = [h for h in loop._scheduled if not h._cancelled]
    return p.calls, err, leftover_tasks, len(live_handles), c.is_ready(), t.state

def fn(a, b): return vloop.run(scenario(a, b))
def mk(ctx):
    a, b = z3.Reals('init_dur tsig'); ctx.solver.add(a > 0, a <= 100, b > 0, b <= 100); return SymReal(a), SymReal(b)
seen = {}
def prop(res, a, b):
    calls, err, tasks, nh, ready, st = res
    seen[(tuple(calls), repr(err), tuple(tasks), nh, ready)] = seen.get((tuple(calls), repr(err), tuple(tasks), nh, ready), 0) + 1
    return calls.count('stop') == 1 and err is None and not tasks and nh == 0 and not ready
t0 = time.time(); print(symx0.explore(fn, mk, prop), round(time.time()-t0, 2))
for k, v in seen.items(): print(v, k)
