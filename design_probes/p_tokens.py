"""P11: a symbolic integer travels through timestr() -> real regex -> convert() via numeral tokens."""
import time, z3
import symx0
from symx0 import SymBool, SymReal, Ctx
from edzed.utils import timeunits as tu

TOK = {}
def token(z):
    t = str(700000000 + len(TOK)); TOK[t] = z; return t

class SymInt(int):
    def __new__(cls, z): o = int.__new__(cls, 0); o.z = z; return o
    def _o(o): return o.z if isinstance(o, SymInt) else z3.IntVal(int(o))
    def __divmod__(s, o):           # Python floor semantics; o is a positive constant here
        oz = SymInt._o(o); return SymInt(s.z / oz), SymInt(s.z % oz)
    def __lt__(s,o): return SymBool(s.z < SymInt._o(o))
    def __bool__(s): return Ctx.cur.branch(s.z != 0)
    def __format__(s, spec): assert spec == ''; return token(s.z)
    __str__ = lambda s: token(s.z)
    def __hash__(s): raise TypeError

def _shim(base, conv):
    """a stand-in for a builtin type: isinstance/issubclass behave like the builtin, calling converts via conv"""
    class Meta(type):
        def __instancecheck__(cls, x): return isinstance(x, base)
        def __subclasscheck__(cls, c): return issubclass(c, base)
        def __call__(cls, *a): return conv(*a)
    return Meta(base.__name__, (), {})
shim_int = _shim(int, lambda x=0: x if isinstance(x, SymInt) else int(x))
shim_float = _shim(float, lambda x=0.0: SymReal(z3.ToReal(TOK[x])) if isinstance(x, str) and x in TOK else float(x))
def _rmul(s, o): return SymReal(s.z * z3.RealVal(int(o)))
SymReal.__mul__ = _rmul; SymReal.__rmul__ = _rmul
def _req(s, o): return SymBool(s.z == z3.RealVal(repr(float(o))))
SymReal.__eq__ = _req

shapes = set()
def fn(n):
    TOK.clear()
    tu.int, tu.float = shim_int, shim_float       # module-global shims, source untouched
    try:
        s = tu.timestr(n)
        shapes.add(''.join('N' if c.isdigit() else c for c in s).replace('N'*9, '#'))
        return tu.convert(s)
    finally:
        del tu.int, tu.float
def mk(ctx):
    n = z3.Int('n'); ctx.solver.add(n >= 0, n <= 10**12); return (SymInt(n),)
def prop(res, n):
    return (res.z if isinstance(res, SymReal) else z3.RealVal(repr(res))) == z3.ToReal(n.z)
t0 = time.time(); print(symx0.explore(fn, mk, prop), round(time.time()-t0, 3)); print(sorted(shapes))
