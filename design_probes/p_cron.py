import logging; logging.disable(logging.CRITICAL)
import asyncio, time, z3, datetime as dt, types
import edzed
from edzed import simulator
from edzed.blocklib import cron
import vloop, symx0, symdt
from symx0 import SymReal, Ctx

BASE = dt.date(2024, 12, 31)
class Clock:
    """wall clock = W0 + loop time (+ jitter); reads truncate to microseconds"""
    def __init__(self, w0): self.w0 = w0; self.n = 0
    def now_us(self):
        lt = asyncio.get_running_loop().time()
        ltz = lt.z if isinstance(lt, SymReal) else z3.RealVal(repr(float(lt)))
        return z3.ToInt(self.w0 + ltz * 1_000_000)
    def dtnow(self): return symdt.SymDateTime(BASE, self.now_us())

async def scenario(clock, probe_off):
    simulator._current_circuit = simulator.Circuit(); c = edzed.get_circuit()
    td = edzed.TimeDate('td', times='10:00-10:30')
    cr = c.findblock('_cron_local')
    cron.Cron.dtnow = lambda self: clock.dtnow()
    loop = asyncio.get_running_loop()
    def vsleep(x): loop._vtime = loop._vtime + x
    cron.time = types.SimpleNamespace(sleep=vsleep)
    asyncio.create_task(c.run_forever()); await c.wait_init()
    out0 = td.output
    await asyncio.sleep(probe_off)
    out1 = td.output; us1 = clock.now_us()
    err = c.error
    await c.shutdown()
    return out0, out1, us1, err

def fn(w0, off):
    try: return vloop.run(scenario(Clock(w0.z), off))
    finally: cron.time = time

H = 3_600_000_000
def mk(ctx):
    w0 = z3.Real('w0'); off = z3.Real('off')
    ctx.solver.add(w0 >= 9*H + H//2, w0 <= 11*H, w0 == z3.ToReal(z3.ToInt(w0)))   # start 09:30..11:00, integer us
    ctx.solver.add(off > 0, off <= 3600)                                   # observe up to 1h later
    return SymReal(w0), SymReal(off)
nviol = 0
def prop(res, w0, off):
    out0, out1, us1, err = res
    inside0 = z3.And(w0.z >= 10*H, w0.z < 10*H + H//2)
    inside1 = z3.And(us1 >= 10*H, us1 < 10*H + H//2)
    TOL = 5000   # 5 ms
    near1 = z3.Or(z3.And(us1 >= 10*H - TOL, us1 <= 10*H + TOL), z3.And(us1 >= 10*H + H//2 - TOL, us1 <= 10*H + H//2 + TOL))
    return z3.And(err is None, inside0 == bool(out0), z3.Or(near1, inside1 == bool(out1)))
t0=time.time(); r = symx0.explore(fn, mk, prop); print(r, round(time.time()-t0,2))
