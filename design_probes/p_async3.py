import logging; logging.disable(logging.CRITICAL)
import asyncio, time, z3
import edzed
from edzed import simulator
import vloop, symx0

class Probe(edzed.SBlock):
    def init_regular(self): self.set_output(0); self.log=[]
    def _event(self, etype, data):
        self.log.append((asyncio.get_running_loop().time(), etype, dict(data)))

async def scenario(iv, t1, t2, tend):
    simulator._current_circuit = simulator.Circuit()
    c = edzed.get_circuit()
    p = Probe('p')
    r = edzed.Repeat('r', dest=p, etype='x', interval=iv, count=2)
    task = asyncio.create_task(c.run_forever())
    await c.wait_init()
    ev = edzed.ExtEvent(r, 'x')
    await asyncio.sleep(t1)
    ev.send(1)
    await asyncio.sleep(t2)
    ev.send(2)
    await asyncio.sleep(tend)
    log = p.log
    await c.shutdown()
    return log

def fn(*a): return vloop.run(scenario(*a))
def mk(ctx):
    iv, t1, t2, tend = z3.Reals('iv t1 t2 tend')
    ctx.solver.add(iv > 0, t1 > 0, t2 > 0, tend > 0)
    return tuple(symx0.SymReal(x) for x in (iv,t1,t2,tend))
shapes = {}
def prop(log, iv, t1, t2, tend):
    shapes[tuple((d['value'], d['repeat']) for _,_,d in log)] = shapes.get(tuple((d['value'], d['repeat']) for _,_,d in log),0)+1
    return True
t0=time.time()
print(symx0.explore(fn, mk, prop), time.time()-t0)
for k,v in shapes.items(): print(v,k)
