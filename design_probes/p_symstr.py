import logging; logging.disable(logging.CRITICAL)
import z3, time, edzed
from edzed import simulator
import symx0
from symx0 import SymBool, Ctx

class SymStr(str):
    def __new__(cls, z):
        o = str.__new__(cls, "\x00sym\x00"); o.z = z; return o
    def startswith(self, prefix): return SymBool(z3.PrefixOf(z3.StringVal(str(prefix)), self.z))
    def __radd__(self, other): return SymStr(z3.Concat(z3.StringVal(str(other)), self.z))
    def __add__(self, other): return SymStr(z3.Concat(self.z, other.z if isinstance(other, SymStr) else z3.StringVal(str(other))))
    def __hash__(self): raise TypeError("hash of symbolic str")
    def __bool__(self): return Ctx.cur.branch(z3.Length(self.z) > 0)

class Probe(edzed.SBlock):
    def init_regular(self): self.set_output(0)
    def _event_x(self, **data): self.got = data; return 'rv'

def fn(src_ctor, src_call):
    simulator._current_circuit = simulator.Circuit(); c = edzed.get_circuit()
    p = Probe('p'); c.sblock_queue = __import__('asyncio').Queue(); c.finalize(); c.init_sblock(p, full=True); c._simtask = object()
    ev = edzed.ExtEvent(p, 'x', source=src_ctor)
    r1 = ev.send(5); s1 = p.got['source']
    r2 = ev.send(source=src_call); s2 = p.got['source']
    return s1, s2
def mk(ctx): return SymStr(z3.String('a')), SymStr(z3.String('b'))
def prop(res, a, b):
    s1, s2 = res
    return z3.And(z3.PrefixOf(z3.StringVal("_ext_"), s1.z), z3.PrefixOf(z3.StringVal("_ext_"), s2.z),
                  z3.Or(s1.z == a.z, s1.z == z3.Concat(z3.StringVal("_ext_"), a.z)))
t0=time.time(); print(symx0.explore(fn, mk, prop), round(time.time()-t0,3))
