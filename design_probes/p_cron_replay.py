import logging, sys
logging.basicConfig(level=logging.DEBUG, format="%(message)s") if '-v' in sys.argv else logging.disable(logging.CRITICAL)
import asyncio, time, datetime as dt, types
from fractions import Fraction
import edzed
from edzed import simulator
from edzed.blocklib import cron
import vloop
BASE = dt.datetime(2024, 12, 31)
W0 = 37799999500; OFF = 3579997/2000
async def scenario():
    simulator._current_circuit = simulator.Circuit(); c = edzed.get_circuit()
    td = edzed.TimeDate('td', times='10:00-10:30', debug=True)
    loop = asyncio.get_running_loop()
    def now_us(): return int(W0 + Fraction(loop.time()) * 1_000_000)
    cron.Cron.dtnow = lambda self: BASE + dt.timedelta(microseconds=now_us())
    def vsleep(x): loop._vtime = loop._vtime + x
    cron.time = types.SimpleNamespace(sleep=vsleep)
    c.findblock('_cron_local').debug = True
    asyncio.create_task(c.run_forever()); await c.wait_init()
    print("start", BASE + dt.timedelta(microseconds=now_us()), td.output)
    await asyncio.sleep(OFF)
    print("probe", BASE + dt.timedelta(microseconds=now_us()), td.output, c.error)
    await c.shutdown()
vloop.run(scenario())
