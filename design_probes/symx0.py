"""Prototype: proxy-based symbolic execution on z3 with re-execution DFS."""
import z3, time as _time

class Diverged(Exception): pass

class Ctx:
    cur = None
    def __init__(self):
        self.solver = z3.Solver()
        self.prefix = []      # decisions to replay
        self.trace = []       # (decision, expr_sexpr, forced)
        self.pending = []     # stack of prefixes to explore
        self.queries = 0; self.solver_s = 0.0
    def check(self, *extra):
        t=_time.perf_counter(); self.queries += 1
        r = self.solver.check(*extra); self.solver_s += _time.perf_counter()-t
        return r
    def branch(self, expr):
        expr = z3.simplify(expr)
        if z3.is_true(expr): return True
        if z3.is_false(expr): return False
        k = len(self.trace)
        if k < len(self.prefix):
            d, s = self.prefix[k]
            if s != expr.sexpr(): raise Diverged(f"at {k}: {s} vs {expr.sexpr()}")
            self.trace.append((d, s)); self.solver.add(expr if d else z3.Not(expr)); return d
        can_t = self.check(expr) == z3.sat
        can_f = self.check(z3.Not(expr)) == z3.sat
        if can_t and can_f:
            self.pending.append(self.trace + [(False, expr.sexpr())])
            d = True
        elif can_t: d = True
        elif can_f: d = False
        else: raise RuntimeError("infeasible path")
        self.trace.append((d, expr.sexpr())); self.solver.add(expr if d else z3.Not(expr)); return d

def _z(x):
    if isinstance(x, (SymReal,)): return x.z
    if isinstance(x, bool): raise TypeError
    if isinstance(x, int): return z3.RealVal(x)
    if isinstance(x, float): return z3.RealVal(repr(x)) if x == x and abs(x) != float('inf') else None
    return None

class SymBool:
    def __init__(self, z): self.z = z
    def __bool__(self): return Ctx.cur.branch(self.z)

class SymReal(float):
    def __new__(cls, z): 
        o = float.__new__(cls, float('nan')); o.z = z; return o
    def _bin(self, other, f):
        oz = _z(other)
        if oz is None: return NotImplemented
        return SymReal(f(self.z, oz))
    def _cmp(self, other, f):
        if isinstance(other, float) and not isinstance(other, SymReal) and other == float('inf'):
            return f(0, 1)   # finite vs +inf
        oz = _z(other)
        if oz is None: return NotImplemented
        return SymBool(f(self.z, oz))
    def __add__(s,o): return s._bin(o, lambda a,b: a+b)
    def __radd__(s,o): return s._bin(o, lambda a,b: b+a)
    def __sub__(s,o): return s._bin(o, lambda a,b: a-b)
    def __rsub__(s,o): return s._bin(o, lambda a,b: b-a)
    def __neg__(s): return SymReal(-s.z)
    def __lt__(s,o): return s._cmp(o, lambda a,b: a<b)
    def __le__(s,o): return s._cmp(o, lambda a,b: a<=b)
    def __gt__(s,o): return s._cmp(o, lambda a,b: a>b)
    def __ge__(s,o): return s._cmp(o, lambda a,b: a>=b)
    def __eq__(s,o): return s._cmp(o, lambda a,b: a==b)
    def __ne__(s,o): return s._cmp(o, lambda a,b: a!=b)
    def __hash__(s): raise TypeError("hash of symbolic real")
    def __format__(s, spec): return f"<sym {s.z}>"
    def __repr__(s): return f"<sym {s.z}>"
    __str__ = __repr__
    def __float__(s): raise TypeError("concretization of symbolic real")

def explore(fn, mkargs, prop):
    """fn(*args)->result ; prop(result)-> z3 bool that must hold."""
    pending = [[]]; paths = 0; viol = None; q=0; st=0.0
    while pending:
        ctx = Ctx(); ctx.prefix = pending.pop(); Ctx.cur = ctx
        args = mkargs(ctx)
        res = fn(*args)
        p = prop(res, *args)
        paths += 1
        if not isinstance(p, bool):
            if ctx.check(z3.Not(p)) == z3.sat:
                viol = ctx.solver.model(); break
        elif not p:
            ctx.check(); viol = ctx.solver.model(); break
        pending.extend(ctx.pending); q += ctx.queries; st += ctx.solver_s
    return paths, viol, q, st
