from edzed.utils import timeunits
from edzed.blocklib import timeinterval as ti

def conv_ok(s: str) -> float:
    """
    pre: len(s) <= 5
    post: _ >= 0.0
    raises: ValueError
    """
    return timeunits.convert(s)

def conv_twin(s: str) -> float:
    """
    pre: len(s) <= 5
    post: _ != 3723.0
    raises: ValueError
    """
    return timeunits.convert(s)

def timestr_inv(n: int) -> float:
    """
    pre: 0 <= n <= 10**7
    post: _ == n
    """
    return timeunits.convert(timeunits.timestr(n))
