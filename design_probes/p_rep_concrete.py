import logging; logging.disable(logging.CRITICAL)
import asyncio, edzed
from edzed import simulator
import vloop
class Probe(edzed.SBlock):
    def init_regular(self): self.set_output(0); self.log=[]
    def _event(self, etype, data): self.log.append((asyncio.get_running_loop().time(), data['value'], data['repeat']))
async def main():
    simulator._current_circuit = simulator.Circuit(); c = edzed.get_circuit()
    p = Probe('p'); r = edzed.Repeat('r', dest=p, etype='x', interval=1.0, count=2)
    asyncio.create_task(c.run_forever()); await c.wait_init()
    ev = edzed.ExtEvent(r, 'x')
    await asyncio.sleep(1.0); ev.send(1)
    await asyncio.sleep(2.0); ev.send(2)     # exactly at the 2nd repetition instant
    await asyncio.sleep(5.0); print(p.log); await c.shutdown()
vloop.run(main())
