import logging; logging.disable(logging.CRITICAL)
import asyncio, time, z3
import edzed
from edzed import simulator
import vloop, symx0

async def scenario(d, t):
    simulator._current_circuit = simulator.Circuit()
    c = edzed.get_circuit()
    tm = edzed.Timer('tm', t_on=d)
    task = asyncio.create_task(c.run_forever())
    await c.wait_init()
    edzed.ExtEvent(tm, 'start').send()
    await asyncio.sleep(t)
    out = tm.output
    await c.shutdown()
    return out

def fn(d, t): return vloop.run(scenario(d, t))
def mk(ctx):
    d = z3.Real('d'); t = z3.Real('t')
    ctx.solver.add(d > 0, t > 0, d != t)
    return symx0.SymReal(d), symx0.SymReal(t)
def prop(res, d, t):
    return (t.z < d.z) == z3.BoolVal(bool(res))
t0=time.time()
print(symx0.explore(fn, mk, prop), time.time()-t0)
