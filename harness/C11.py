"""
C11 - a block never handles two events at the same time.

Real code executed symbolically: SBlock.event (guard, try/finally, EventCond loop, early-init
branch, error classification), SBlock._enable_event, Event.send (filters), SBlock.set_output,
FSM._event/_ctx_event, Input/Counter handlers, Repeat._event (on the virtual loop),
AddonPersistence.event.

Ground truth independent of edzed's guard: every handler of the harness' block classes counts
its own nesting depth; a probe filter on every edge records an *attempt* whenever an event is
about to be delivered to a block whose handler is running.  Then: (A) no handler is ever entered
at depth > 1; (B) an attempt <=> EdzedCircuitError reaches the external caller and Circuit.error
is set; (C) after every outcome each block still accepts events.  Event values are symbolic
integers, so whether an edge fires ("output changed?") is a path region.
"""
import asyncio
from symx.core import And_, Or_, Not_, Iff_, eq_, is_sym
from symx.edz import sync_circuit, start_sync, fresh_circuit
from symx import vloop
import edzed
from edzed import EventCond, Goto

PROPERTY = 'C11'
LEVEL = 'model_checking'
BOUNDS = {'quick': {'blocks': '2 (all kind pairs, all wirings with <=2 out-edges per block) + 3-block cycle/diamond shapes',
                    'external_events': 2},
          'thorough': {'blocks': '2 (all kind pairs: <=2 out-edges per block with 1 external event, <=1 out-edge with 2) + 3 (all '
                                 'wirings with <=1 out-edge per block over probe/FSM/OutputFunc) + 3-block shapes',
                       'external_events': 2}}
OUTSIDE = ["more than 3 blocks", "edges other than on_output/on_every_output/on_enter/forwarding Repeat",
           "handlers raising exceptions of their own (C09)"]
STUBS = ["Circuit.sblock_queue = list-backed stub (sync scenarios)", "virtual-time loop (Repeat scenario)"]
ASSUMPTIONS = ["the harness' depth counters are the ground truth for 'is handling an event'"]
EXPECT_LABELS = {'all': ['no-nested-handling', 'attempt-iff-error', 'init-attempt-iff-error', 'guard-released', 'harmless-errors',
                         'repeat-loop-detected']}
EXPECT_NOTES = {'all': ['init-recursion-attempt', 'init-no-recursion', 'recursion-attempt', 'no-recursion', 'filtered-out', 'eventcond-none', 'cycle-broken-by-equal-value']}
FLOORS = {'quick': {'paths': 1000, 'checks': 5000}, 'thorough': {'paths': 10000, 'checks': 50000}}

KINDS = ['P', 'I', 'C', 'F', 'O']


class Reentered(BaseException):
    pass


class Tracker:
    def __init__(self):
        self.depth = {}
        self.max_depth = 0
        self.attempts = 0
        self.handled = []

    def enter(self, blk):
        d = self.depth.get(blk.name, 0) + 1
        self.depth[blk.name] = d
        self.max_depth = max(self.max_depth, d)
        self.handled.append(blk.name)
        if d > 1:
            self.depth[blk.name] = d - 1
            raise Reentered(blk.name)

    def leave(self, blk):
        self.depth[blk.name] -= 1

    def active(self, name):
        return self.depth.get(name, 0) > 0


def make_classes(tr):
    class P(edzed.SBlock):
        def init_regular(self):
            self.set_output(0)

        def _event_x(self, *, value, **_):
            tr.enter(self)
            try:
                self.set_output(value)
                return 'p-ok'
            finally:
                tr.leave(self)

    class I(edzed.Input):
        def _event_put(self, *, value, **data):     # same call signature as the wrapped handler
            tr.enter(self)
            try:
                return super()._event_put(value=value, **data)
            finally:
                tr.leave(self)

    class C(edzed.Counter):
        def _event_put(self, *, value, **data):     # same call signature as the wrapped handler
            tr.enter(self)
            try:
                return super()._event_put(value=value, **data)
            finally:
                tr.leave(self)

    class F(edzed.FSM):
        STATES = ['off', 'on']
        EVENTS = [('toggle', 'off', 'on'), ('toggle', 'on', 'off'), ('put', None, 'on')]

        def _event(self, etype, data):
            # FSM events go through here; chained self.event() calls are the documented exception
            chained = self._fsm_event_active
            if not chained:
                tr.enter(self)
            try:
                return super()._event(etype, data)
            finally:
                if not chained:
                    tr.leave(self)

        def calc_output(self):
            return self.sdata.get('v', 0) if self._state == 'on' else -1
    class O(edzed.OutputFunc):
        # an output block forwarding through its on_success events
        def _event_put(self, **data):
            tr.enter(self)
            try:
                return super()._event_put(**data)
            finally:
                tr.leave(self)
    return {'P': P, 'I': I, 'C': C, 'F': F, 'O': O}


def edge_event(env, tr, target_name, target_kind, tag, from_kind='P', init_edges=False):
    """an Event towards the target with a final probe filter recording recursion attempts"""
    fk = env.pick(['none', 'sym-reject', 'eventcond'], f'filt_{tag}')

    def probe_filter(data):
        if tr.active(target_name):
            tr.attempts += 1
        return True
    # start-up assignments do not propagate (on_success events of an OutputFunc carry no 'previous' item)
    filters = [edzed.not_from_undef] if from_kind != 'O' and not init_edges else []
    cond = None
    if fk == 'sym-reject':
        cond = env.bool(f'pass_{tag}')

        def flt(data, cond=cond):
            if not cond:
                tr.filtered = getattr(tr, 'filtered', 0) + 1
                return False
            return True
        filters.append(flt)
    etype = {'P': 'x', 'I': 'put', 'C': 'put', 'F': 'put', 'O': 'put'}[target_kind]
    if fk == 'eventcond':
        etype = EventCond(etype, None)

        def ec_probe(data):
            # EventCond -> None when the value is false: delivered to event(), resolved to 'no event'
            if not data.get('value'):
                tr.ec_none = getattr(tr, 'ec_none', 0) + 1
            return True
        filters.append(ec_probe)
    filters.append(probe_filter)
    return edzed.Event(target_name, etype, efilter=filters)


def build(env, tr, kinds, wiring, init_edges=False):
    """wiring: {i: [(j, trigger)]}, trigger in {'out', 'every'}"""
    cls = make_classes(tr)
    names = [f'b{i}' for i in range(len(kinds))]
    blocks = []
    for i, k in enumerate(kinds):
        kw = {}
        outs = [edge_event(env, tr, names[j], kinds[j], f'{i}_{j}_{n}', k, init_edges)
                for n, (j, trg) in enumerate(wiring.get(i, [])) if trg == 'out' or (trg == 'enter' and k != 'F')]
        evs = [edge_event(env, tr, names[j], kinds[j], f'{i}_{j}_e{n}', k, init_edges)
               for n, (j, trg) in enumerate(wiring.get(i, [])) if trg == 'every']
        enters = [edge_event(env, tr, names[j], kinds[j], f'{i}_{j}_n{n}', k, init_edges)
                  for n, (j, trg) in enumerate(wiring.get(i, [])) if trg == 'enter' and k == 'F']
        if k == 'O':
            # the only way out of an OutputFunc: its on_success events (sent for every processed put)
            kw = {'func': (lambda value: value), 'on_success': outs + evs, 'on_error': None}
        else:
            if outs:
                kw['on_output'] = outs
            if evs:
                kw['on_every_output'] = evs
        if k == 'I':
            kw['initdef'] = 0
        if enters:
            kw['on_enter_off'] = enters         # sent when the FSM enters its initial state
        if k == 'F':
            # the FSM stores the value so that its output follows it (edges fire on change)
            blk = cls[k](names[i], **kw)
            orig = blk._event

            def store(etype, data, blk=blk, orig=orig):
                if etype == 'put' and 'value' in data:
                    blk.sdata['v'] = data['value']
                return orig(etype, data)
            blk._event = store
        else:
            blk = cls[k](names[i], **kw)
        blocks.append(blk)
    return blocks


def external(env, tr, circ, blocks, kinds, n):
    for step in range(n):
        tr.attempts = 0
        tr.max_depth = 0
        tr.filtered = 0
        tr.ec_none = 0
        t = env.choose(len(blocks), f'target{step}')
        blk, k = blocks[t], kinds[t]
        what = env.pick(['value', 'unknown', 'noparam', 'eventcond-none'], f'what{step}')
        err_before = circ.error
        exc = None
        reentered = False
        try:
            if what == 'value':
                v = env.int(f'v{step}')
                blk.event({'P': 'x', 'I': 'put', 'C': 'put', 'F': 'put', 'O': 'put'}[k], value=v)
            elif what == 'unknown':
                blk.event('no_such_event_type', value=1)
            elif what == 'noparam':
                blk.event({'P': 'x', 'I': 'put', 'C': 'put', 'F': 'toggle', 'O': 'put'}[k])
            else:
                r = blk.event(EventCond(None, None), value=1)
                env.check('eventcond-none-result', r is None)
        except Reentered:
            reentered = True
        except Exception as err:
            exc = err
        env.check('no-nested-handling', not reentered and tr.max_depth <= 1, info=lambda: (kinds, tr.handled[-8:]))
        if reentered:
            return
        if what == 'unknown':
            env.check('harmless-errors', isinstance(exc, edzed.EdzedUnknownEvent) and circ.error is err_before,
                      info=lambda: exc)
        elif what == 'noparam' and k == 'O':
            # OutputFunc takes **data and looks the items up itself: a missing 'value' is a KeyError inside the
            # handler, which edzed rightly treats as a handler error; nothing is claimed about it here
            return
        elif what == 'noparam' and k != 'F':
            env.check('harmless-errors', isinstance(exc, TypeError) and circ.error is err_before, info=lambda: exc)
        elif what == 'eventcond-none':
            env.check('harmless-errors', exc is None and circ.error is err_before)
        else:
            attempted = tr.attempts > 0
            env.note('recursion-attempt' if attempted else 'no-recursion')
            if tr.filtered:
                env.note('filtered-out')
            if tr.ec_none:
                env.note('eventcond-none')
            if not attempted and len(tr.handled) and step == 0 and any(
                    t2 in [j for j, _ in w] for t2, w in getattr(tr, 'wiring', {}).items() for _ in [0]):
                pass
            env.check('attempt-iff-error',
                      isinstance(exc, edzed.EdzedCircuitError) and isinstance(circ.error, edzed.EdzedCircuitError)
                      if attempted else (exc is None and circ.error is err_before),
                      info=lambda: (kinds, attempted, exc, circ.error))
        # (C) guard released everywhere: every block still accepts an event
        saved = (tr.attempts, tr.max_depth)
        for b2, k2 in zip(blocks, kinds):
            try:
                b2.event('harmless_probe_event')
                ok = False
            except edzed.EdzedUnknownEvent:
                ok = True
            except edzed.EdzedCircuitError as err:
                ok = False
            env.check('guard-released', ok, info=lambda: (b2.name, what))
        if circ.error is not None:
            return


def wirings(env, n, max_out):
    w = {}
    for i in range(n):
        cnt = env.choose(max_out + 1, f'nout{i}')
        outs = []
        for e in range(cnt):
            j = env.choose(n, f'dst{i}_{e}')
            trg = env.pick(['out', 'every'], f'trg{i}_{e}')
            outs.append((j, trg))
        w[i] = outs
    return w


def scen_graph(env, kinds, max_out, nev, shape=None):
    circ = sync_circuit()
    tr = Tracker()
    if shape is None:
        w = wirings(env, len(kinds), max_out)
    else:
        trg = env.pick(['out', 'every'], 'trg')
        w = {'cycle3': {0: [(1, trg)], 1: [(2, trg)], 2: [(0, trg)]},
             'diamond': {0: [(1, trg), (2, trg)], 1: [(0, 'out')] if len(kinds) < 4 else [(3, trg)], 2: [(1, trg)]},
             'self': {0: [(0, trg)]},
             'chain-back': {0: [(1, trg)], 1: [(2, trg), (0, 'out')], 2: []}}[shape]
    tr.wiring = w
    blocks = build(env, tr, kinds, w)
    start_sync(circ)
    if circ.error is not None:
        return
    tr.handled = []
    external(env, tr, circ, blocks, kinds, nev)
    if any(tr.handled.count(b.name) == 1 for b in blocks) and any(len(v) for v in w.values()):
        pass
    # a cycle whose propagation stopped because a value did not change
    if circ.error is None and any(i in [j for j, _ in outs] or any(i in [jj for jj, _ in w.get(j, [])] for j, _ in outs)
                                  for i, outs in w.items()):
        env.note('cycle-broken-by-equal-value')
    env.obs('graph', kinds, w, circ.error is not None)


def scen_init_loop(env, kinds, shape):
    """event loops that close DURING the initialisation: start-up assignments propagate (no not_from_undef filter),
    an FSM announces its initial state through on_enter/on_output events, a block that is not initialised yet is
    initialised by the first event it gets.  An FSM is initialised by a Goto EVENT, so it is 'handling an event'
    while it enters its initial state; Input/Counter/probe blocks are initialised by a plain routine."""
    circ = sync_circuit()
    tr = Tracker()
    trg = [env.pick(['out', 'every', 'enter'], f'trg{i}') if k == 'F' else env.pick(['out', 'every'], f'trg{i}')
           for i, k in enumerate(kinds)]
    n = len(kinds)
    if shape == 'ring':
        w = {i: [((i + 1) % n, trg[i])] for i in range(n)}
    else:       # 'tail': b0 -> b1 -> ... -> b(n-1) -> b1   (the loop does not include the first block)
        w = {i: [(i + 1 if i + 1 < n else min(1, n - 1), trg[i])] for i in range(n)}
    blocks = build(env, tr, kinds, w, init_edges=True)
    exc = None
    try:
        start_sync(circ)
    except Reentered:
        env.check('no-nested-handling', False, info=lambda: (kinds, w, tr.handled[-8:]))
        return
    except Exception as err:
        exc = err
    attempted = tr.attempts > 0
    env.note('init-recursion-attempt' if attempted else 'init-no-recursion')
    env.check('no-nested-handling', tr.max_depth <= 1, info=lambda: (kinds, w))
    refused = isinstance(exc, edzed.EdzedCircuitError) or isinstance(circ.error, edzed.EdzedCircuitError)
    env.check('init-attempt-iff-error', refused if attempted else (exc is None and circ.error is None),
              info=lambda: (kinds, w, attempted, exc, circ.error))
    for b in blocks:
        if isinstance(b, edzed.FSM):
            env.check('no-stale-chained-event', b._next_event is None if hasattr(b, '_next_event') else True,
                      info=lambda: (b.name, getattr(b, '_next_event', None)))
    env.obs('init-loop', kinds, w, attempted, type(exc).__name__)


def scen_repeat(env):
    """a loop closed through a Repeat block is detected synchronously (the original event is forwarded at once)"""
    circ = fresh_circuit()
    tr = Tracker()
    cls = make_classes(tr)
    rep = edzed.Repeat('rep', dest='b0', etype='x', interval=5.0, count=1)
    trg = env.pick(['out', 'every'], 'trg')
    b0 = cls['P']('b0', **{'on_output' if trg == 'out' else 'on_every_output': edzed.Event('rep', 'x', efilter=edzed.not_from_undef)})
    res = {}

    async def main():
        task = asyncio.create_task(circ.run_forever())
        await circ.wait_init()
        v = env.int('v')
        try:
            b0.event('x', value=v)
            res['exc'] = None
        except Exception as err:
            res['exc'] = err
        changed = bool(Not_(eq_(v, 0))) if trg == 'out' else True
        # b0 handles x -> output -> Repeat forwards synchronously to b0, which is still handling
        env.check('repeat-loop-detected',
                  (isinstance(res['exc'], edzed.EdzedCircuitError) and isinstance(circ.error, edzed.EdzedCircuitError))
                  if changed else (res['exc'] is None and circ.error is None), info=lambda: (changed, res, circ.error))
        env.check('no-nested-handling', tr.max_depth <= 1)
        try:
            b0.event('harmless_probe_event')
        except edzed.EdzedUnknownEvent:
            env.check('guard-released', True)
        except edzed.EdzedCircuitError:
            env.check('guard-released', False)
        try:
            await circ.shutdown()
        except edzed.EdzedCircuitError:
            pass
    try:
        vloop.run(main())
    except Reentered:
        env.check('no-nested-handling', False)


SITES = ['none', 'enter-once-more', 'exit-old', 'exit-intermediate', 'cond', 'on-exit-old', 'on-enter-new', 'on-output',
         'on-notrans', 'handler-fails', 'cond-rejects']


def scen_fsm_chain(env, site, route, timer0=False):
    """The FSM's own exception to the rule - ONE chained transition requested by an entry action (or a zero-length
    timer) - and its limits: while the FSM handles 'go' (a -> b, the entry action of b - or b's zero-length timer -
    chains to c), one further event is addressed to it from the given site, directly or through a relay block.
    Every such event must be refused with an EdzedCircuitError that stops the simulation; without it the chained
    transition is accepted, and afterwards the FSM takes a real event again (its state changes)."""
    circ = sync_circuit()
    log = []
    data_v = env.int('v')
    accept = env.bool('cond_result') if site == 'cond-rejects' else True

    def extra(self_):
        log.append('extra-attempt')
        if route == 'direct':
            return self_.event(Goto('d'))
        return relay.event('fwd')

    class Relay(edzed.SBlock):
        def init_regular(self):
            self.set_output(0)

        def _event_fwd(self, **data):
            log.append('relay')
            return g.event(Goto('d'))

    class G(edzed.FSM):
        STATES = ['a', 'b', 'c', 'd']
        EVENTS = [('go', 'a', 'b'), ('next', 'b', 'c'), ('back', None, 'a'), ('nowhere', 'a', None)]
        TIMERS = {'b': (0.0, 'next')} if timer0 else {}

        def cond_go(self):
            log.append('cond_go')
            if site == 'cond':
                extra(self)
            return accept

        def exit_a(self):
            log.append('exit_a')
            if site == 'exit-old' and edzed.fsm_event_data.get().get('armed'):
                extra(self)

        def enter_b(self):
            log.append('enter_b')
            if not timer0:
                self.event('next')
            if site == 'enter-once-more':
                extra(self)
            if site == 'handler-fails':
                raise RuntimeError('entry action failed')

        def exit_b(self):
            log.append('exit_b')
            if site == 'exit-intermediate':
                extra(self)

        def enter_c(self):
            log.append('enter_c')

    relay = Relay('relay')
    kw = {}
    trip = edzed.Event('relay', 'fwd') if route == 'relay' else None
    if site in ('on-exit-old', 'on-enter-new', 'on-output', 'on-notrans'):
        if route == 'direct':
            trip = edzed.Event('g', Goto('d'))
        kw[{'on-exit-old': 'on_exit_a', 'on-enter-new': 'on_enter_c', 'on-output': 'on_output',
            'on-notrans': 'on_notrans'}[site]] = edzed.Event(
                trip.dest if False else ('relay' if route == 'relay' else 'g'), 'fwd' if route == 'relay' else Goto('d'),
                efilter=[lambda d: (log.append('extra-attempt'), True)[1]] + ([edzed.not_from_undef] if site == 'on-output' else []))
    g = G('g', **kw)
    start_sync(circ)
    env.check('chain-start', g.state == 'a' and circ.error is None)
    exc = None
    ret = None
    try:
        if site == 'on-notrans':
            ret = g.event('nowhere', armed=True, value=data_v)
        else:
            ret = g.event('go', armed=True, value=data_v)
    except Exception as err:
        exc = err
    attempted = 'extra-attempt' in log
    if site == 'none' or (site == 'cond-rejects'):
        env.check('site-reached', not attempted)
    elif site == 'handler-fails':
        env.check('site-reached', isinstance(exc, RuntimeError), info=lambda: (exc, log))
    else:
        env.check('site-reached', attempted, info=lambda: (site, route, log))
    if site == 'handler-fails':
        env.check('handler-error-stops', isinstance(circ.error, edzed.EdzedCircuitError), info=lambda: circ.error)
    elif site == 'cond-rejects' and not accept:
        env.note('chain-rejected-by-cond')
        env.check('chain-rejected', ret is False and g.state == 'a' and exc is None and circ.error is None,
                  info=lambda: (ret, g.state, exc))
    elif attempted and site == 'enter-once-more' and timer0:
        # here the entry action's request IS the single chained transition (the zero-length timer is then not started)
        env.check('single-chained-transition-accepted', ret is True and exc is None and circ.error is None and g.state == 'd',
                  info=lambda: (ret, exc, g.state, log))
    elif attempted:
        env.note('chain-extra-event-attempt')
        env.check('chain-extra-event-refused', isinstance(exc, edzed.EdzedCircuitError) and
                  isinstance(circ.error, edzed.EdzedCircuitError) and g.state != 'd' and 'enter_d' not in log,
                  info=lambda: (site, route, exc, circ.error, g.state, log))
    else:
        env.note('chain-accepted')
        env.check('single-chained-transition-accepted', ret is True and exc is None and circ.error is None and g.state == 'c'
                  and log == ['cond_go', 'exit_a', 'enter_b', 'exit_b', 'enter_c'], info=lambda: (ret, exc, g.state, log))
    # afterwards the block is not locked: a real event is taken and changes the state (not merely "not refused")
    stale = getattr(g, '_next_event', None)
    if circ.error is None or site == 'handler-fails':
        try:
            r2 = g.event('back')
            ok = r2 is True and g.state == 'a'
        except Exception as err:
            ok = False
            r2 = err
        env.check('guard-released-real-event', ok and stale is None, info=lambda: (site, r2, g.state, stale))
        try:
            r3 = relay.event('no_such_event')
            ok3 = False
        except edzed.EdzedUnknownEvent:
            ok3 = True
        except Exception:
            ok3 = False
        env.check('guard-released', ok3)


def shards(tier):
    out = [{'name': 'repeat loop', 'scenario': 'scen_repeat'}]
    for site in SITES:
        for route in (('direct',) if site in ('none', 'handler-fails', 'cond-rejects') else ('direct', 'relay')):
            for timer0 in (False, True):
                out.append({'name': f'fsm chain site={site} route={route} timer0={timer0}', 'scenario': 'scen_fsm_chain',
                            'params': {'site': site, 'route': route, 'timer0': timer0}})
    nev = BOUNDS[tier]['external_events']
    for a in KINDS:
        out.append({'name': f'self {a}', 'scenario': 'scen_graph',
                    'params': {'kinds': [a], 'max_out': 2, 'nev': nev}})
        for b in KINDS:
            if tier == 'quick':
                out.append({'name': f'pair {a}{b}', 'scenario': 'scen_graph',
                            'params': {'kinds': [a, b], 'max_out': 1, 'nev': 1}, 'cost': 20})
            else:
                # sized by path counts: either up to two out-edges per block with one external event,
                # or one out-edge per block with a sequence of two external events
                out.append({'name': f'pair {a}{b} max_out=2 nev=1', 'scenario': 'scen_graph',
                            'params': {'kinds': [a, b], 'max_out': 2, 'nev': 1}, 'cost': 200})
                out.append({'name': f'pair {a}{b} max_out=1 nev=2', 'scenario': 'scen_graph',
                            'params': {'kinds': [a, b], 'max_out': 1, 'nev': 2}, 'cost': 60})
    for a in KINDS:
        out.append({'name': f'init loop ring {a}', 'scenario': 'scen_init_loop', 'params': {'kinds': [a], 'shape': 'ring'}})
        for b in KINDS:
            for shape in ('ring', 'tail'):
                out.append({'name': f'init loop {shape} {a}{b}', 'scenario': 'scen_init_loop',
                            'params': {'kinds': [a, b], 'shape': shape}})
            if a == 'F' or b == 'F':
                for c in (['F', 'I', 'P'] if tier == 'thorough' else ['F', 'I']):
                    out.append({'name': f'init loop ring {a}{b}{c}', 'scenario': 'scen_init_loop',
                                'params': {'kinds': [a, b, c], 'shape': 'ring'}})
    shapes = ['cycle3', 'diamond', 'chain-back']
    for shape in shapes:
        for kinds in (['P', 'P', 'P'], ['I', 'C', 'F'], ['F', 'I', 'P'], ['C', 'F', 'I'], ['I', 'O', 'P'], ['O', 'P', 'O']):
            out.append({'name': f'{shape} {"".join(kinds)}', 'scenario': 'scen_graph',
                        'params': {'kinds': kinds, 'max_out': 0, 'nev': 1 if tier == 'quick' else 2, 'shape': shape},
                        'cost': 10})
    if tier == 'thorough':
        TK = ['P', 'F', 'O']        # three-block wirings over a probe, an FSM and an output block
        for a in TK:
            for b in TK:
                for c in TK:
                    out.append({'name': f'triple {a}{b}{c}', 'scenario': 'scen_graph',
                                'params': {'kinds': [a, b, c], 'max_out': 1, 'nev': 1}, 'cost': 30})
    return out
