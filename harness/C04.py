"""
C04 - a timed state yields its timed event exactly once, on time, unless left earlier.

Real code executed symbolically (on the virtual-time loop, symbolic clock): FSM._build_tables,
__init__ (t_STATE), _ctx_event, _start_timer, _set_timer, _stop_timer, stop, get_state,
utils.time_period, Timer, InputExp, Circuit.run_forever/shutdown.

Durations (class default, instance t_STATE, per-event 'duration') are symbolic reals of any sign,
INF_TIME, None/absent or a unit string; the instants of the external events, and of the stop,
are symbolic reals, so "before / exactly at / after the expiry" are path regions decided by the
solver.  A reference timeline written from docs/FSM.rst runs on the same symbolic values; the
time-stamped log of on_enter/on_exit events, the FSM state/output and the set of live timer
handles of the loop are compared with it.
"""
import asyncio
from symx.core import And_, Or_, Not_, Iff_, If_, eq_, is_sym
from symx.edz import fresh_circuit, Probe, live_block_timers
from symx import vloop
import edzed
from edzed import INF_TIME, Goto, UNDEF

PROPERTY = 'C04'
LEVEL = 'model_checking'
BOUNDS = {'quick': {'external_events': 2, 'note': 'at most one symbolic duration source per shard (all three: 1 event)', 'machines': ['generic timed FSM', 'Timer', 'InputExp'],
                    'durations': 'symbolic real (any sign) / INF_TIME / None / absent / "1m30s" for each of class '
                                 'default, t_STATE, per-event duration'},
          'thorough': {'external_events': 3, 'note': '3 events where at most one duration source is symbolic, else 2', 'machines': ['generic timed FSM', 'Timer', 'InputExp'],
                       'durations': 'as quick'}}
OUTSIDE = ["other same-instant orders than CPython's heapq order of the insertion history",
           "IEEE rounding of loop.time()+delay", "more external events / expirations than the bound",
           "non-zero computation time"]
STUBS = ["virtual-time event loop (symx/vloop.py) with a symbolic clock", "cond_tick returns a symbolic bool"]
ASSUMPTIONS = ["at an exact tie between an external event and an expiry either order is accepted (the oracle follows the "
               "observed one) - exactly-once and no-stale-delivery are still enforced"]
EXPECT_LABELS = {'all': ['fsm-log', 'fsm-state', 'get-state-timer', 'one-timer', 'no-timer-after-stop', 'no-duration-error',
                         'timer-log', 'timer-state', 'iexp-log', 'iexp-output', 'iexp-refused', 'rejected-no-timer', 'selfloop-log']}
EXPECT_NOTES = {'all': ['put-refused', 'chained-event-with-duration', 'rejected-by-the-table', 'rejected-by-cond', 'initial-timed-state', 'tie-event-first', 'tie-event-expiry', 'event-before-expiry', 'event-after-expiry', 'zero-duration', 'inf-duration',
                        'timed-event-rejected', 'stop-before-expiry']}
FLOORS = {'quick': {'paths': 1000, 'checks': 5000}, 'thorough': {'paths': 10000, 'checks': 50000}}

DKINDS = ['absent', 'none', 'sym', 'inf', 'str']
FSM_EVENTS_BASE = ['arm', 'disarm', 'poke', 'goto-idle', 'goto-armed']
FSM_EVENTS = FSM_EVENTS_BASE + ['hop-idle', 'hop-armed']      # the hop events only as the first event of a shard


def dur_value(env, kind, name):
    """returns (value to pass, effective seconds or 'inf' or None)"""
    if kind in ('absent', 'none'):
        return None, None
    if kind == 'sym':
        d = env.real(name, -5, 50)
        return d, d
    if kind == 'inf':
        return INF_TIME, 'inf'
    return '1m30s', 90.0


def clamp(d):
    """time_period(): negative -> 0 (reference, forks on the sign)"""
    if isinstance(d, str) or d is None:
        return d
    return d if d > 0 else 0.0


class RefLog:
    def __init__(self):
        self.log = []


async def drive(loop, gaps, step, presched):
    """Run step(0..n-1) at the cumulative instants of gaps.
    presched=False: the harness task sleeps gap by gap (at an exact tie with a timer scheduled
    earlier by the block, that timer's callback runs first).
    presched=True: every step is a plain loop callback scheduled up front, i.e. BEFORE any timer the
    block creates later: at an exact tie the external event is processed first, while the block's
    timer is due but has not run yet.  Together the two modes cover both orders of a tie."""
    if not presched:
        for i, g in enumerate(gaps):
            await asyncio.sleep(g)
            if step(i) is False:
                break
        return
    fut = loop.create_future()
    box = {}

    def cb(i):
        if box.get('stop'):
            return
        try:
            if step(i) is False or i == len(gaps) - 1:
                box['stop'] = True
                if not fut.done():
                    fut.set_result(None)
        except BaseException as err:      # engine control exceptions must not be swallowed by the loop
            box['exc'] = err
            box['stop'] = True
            if not fut.done():
                fut.set_result(None)
    t = loop.time()
    for i, g in enumerate(gaps):
        t = t + g
        loop.call_at(t, cb, i)
    await fut
    if 'exc' in box:
        raise box['exc']


def logs_equal(got, exp):
    if len(got) != len(exp):
        return False
    conds = []
    for g, e in zip(got, exp):
        if g[1:] != e[1:]:
            return False
        conds.append(eq_(g[0], e[0]))
    return And_(*conds)


# ------------------------------------------------------------------------------------------
# generic timed FSM:  idle --arm--> armed --(d) tick [cond]--> cool --(dc) Goto--> idle
#                     disarm: armed|cool -> idle ; poke: no transition anywhere (rejected)

def make_fsm_class(d0, reject_by_rule=False):
    class TF(edzed.FSM):
        STATES = ['idle']
        # 'hop' is a timed state (7 s) whose entry action leaves it at once (chained transition): it is an
        # intermediate state, no timer may be armed for it
        TIMERS = {'armed': (d0, 'tick'), 'cool': (2.0, Goto('idle')), 'hop': (7.0, Goto('cool'))}
        # reject_by_rule: the timed event of 'armed' is refused by the transition table itself (target None)
        EVENTS = [('arm', None, 'armed'), ('tick', ['armed'], None if reject_by_rule else 'cool'),
                  ('disarm', ['armed', 'cool'], 'idle'), ('poke', None, None),
                  ('hop-idle', None, 'hop'), ('hop-armed', None, 'hop'), ('land-armed', ['hop'], 'armed')]

        def enter_hop(self):
            data = edzed.fsm_event_data.get()
            if data.get('to') == 'armed':
                # the chained event may carry its own 'duration' item; the one of the outer event does not apply
                cd = data.get('chain_duration', UNDEF)
                if cd is UNDEF:
                    self.event('land-armed')
                else:
                    self.event('land-armed', duration=cd)
            else:
                self.event(Goto('idle'))
    return TF


class FsmRef:
    """Reference timeline for TF (written from docs/FSM.rst)."""

    def __init__(self, d0, d1_given, d1, accept):
        self.d0, self.d1_given, self.d1 = d0, d1_given, d1
        self.accept = accept
        self.state = 'idle'
        self.expiry = None
        self.exp_event = None
        self.log = []          # (time, 'enter'|'exit', state)
        self.error = False
        self.stopped = False
        self.reject_by_rule = False

    def eff(self, state, d2):
        if state == 'cool':
            return 2.0
        if d2 is not None:
            return d2
        if self.d1_given and self.d1 is not None:
            return self.d1
        return self.d0

    def _enter(self, now, state, d2=None, first=False):
        """perform a transition into state at time now (chained transitions included)"""
        if not first:
            self.log.append((now, 'exit', self.state))
        self.expiry = None
        while True:
            self.state = state
            if state in ('armed', 'cool'):
                d = self.eff(state, d2)
                if d is None:
                    self.error = True
                    return
                if d == 'inf':
                    break
                if d <= 0:                   # immediately: chained, the state stays invisible
                    if state == 'armed':
                        # conditions are consulted only on an initialised FSM: a zero-length initial state
                        # is left without asking cond_tick (docs/FSM.rst)
                        if self.accept or (first and not self.reject_by_rule):
                            state, d2 = 'cool', None
                            continue
                        break                # rejected: stays armed, visible, no timer
                    state, d2 = 'idle', None
                    continue
                self.expiry = now + d
            break
        self.log.append((now, 'enter', self.state))

    def fire(self):
        now = self.expiry
        self.expiry = None
        if self.state == 'armed':
            if self.accept:
                self._enter(now, 'cool')
            # rejected: stays in armed without a timer
        else:
            self._enter(now, 'idle')

    def event(self, now, etype, d2=None):
        """returns expected event() result"""
        if etype in ('arm', 'goto-armed'):
            self._enter(now, 'armed', d2)
            return True
        if etype == 'hop-armed':
            # via the intermediate timed state 'hop' (invisible, no timer); the 'duration' item of the OUTER event
            # does not apply to 'armed': only the item of the chained event (d2 here) does, else t_armed / default
            self._enter(now, 'armed', d2)
            return True
        if etype in ('goto-idle', 'hop-idle'):
            self._enter(now, 'idle')
            return True
        if etype == 'disarm':
            if self.state in ('armed', 'cool'):
                self._enter(now, 'idle')
                return True
            return False
        return False       # poke


def scen_fsm(env, k0, k1, k2, nev, ev0=None, presched=False, reject='cond', init_state='idle'):
    d0v, d0 = dur_value(env, k0 if k0 != 'absent' else 'none', 'd0')
    d1v, d1 = dur_value(env, k1, 'd1')
    accept = env.bool('accept_tick') if reject == 'cond' else False
    circ = fresh_circuit()
    TF = make_fsm_class(d0v, reject_by_rule=(reject == 'rule'))
    loopref = []
    plog = []
    clock = lambda: loopref[0].time()
    probe = Probe('probe', clock=clock)
    kw = {}
    if k1 != 'absent':
        kw['t_armed'] = d1v
    for st in ('idle', 'armed', 'cool', 'hop'):
        kw[f'on_enter_{st}'] = edzed.Event(probe, 'enter')
        kw[f'on_exit_{st}'] = edzed.Event(probe, 'exit')
    if init_state != 'idle':
        kw['initdef'] = init_state
    # sibling instances of the same class with their own t_armed (created before and after): instance settings
    # must not leak into the class or into each other; the siblings stay in 'idle' and never own a timer
    TF('sibling1', t_armed=77.0)
    fsm = TF('fsm', cond_tick=lambda: accept, **kw)
    TF('sibling2', t_armed=0.0)
    ref = FsmRef(clamp(d0), k1 != 'absent', clamp(d1), accept)
    ref.reject_by_rule = (reject == 'rule')
    gaps = [env.real(f'gap{i}', 0, 60) for i in range(nev)]
    t_stop_gap = env.real('stop_gap', 0, 60)
    horizon = 200.0

    def sync_ref(now, fsm_log_len):
        """advance the reference to 'now': expirations strictly before now fire; at a tie follow the
        observed order"""
        while ref.expiry is not None and not ref.error:
            if ref.expiry < now:
                env.note('event-after-expiry')
                ref.fire()
            elif ref.expiry == now:
                env.note('tie-event-expiry')
                # fired already? then the real log is longer than the reference's
                if fsm_log_len() > len(ref.log) or (ref.state == 'armed' and not accept and not timers()):
                    ref.fire()
                else:
                    env.note('tie-event-first')       # the external event is handled while the timer is due
                    break
            else:
                env.note('event-before-expiry')
                break

    def timers():
        return live_block_timers(loopref[0], circ)

    async def main():
        loop = asyncio.get_running_loop()
        loopref.append(loop)
        simtask = asyncio.create_task(circ.run_forever())
        t0 = loop.time()
        ref._enter(t0, init_state, first=True)
        if init_state != 'idle':
            env.note('initial-timed-state')
        try:
            await circ.wait_init()
            started = True
        except edzed.EdzedInvalidState:
            started = False
        if ref.error or not started:
            # an initial timed state without any duration: the start must fail (and only then)
            env.note('no-duration')
            env.check('no-duration-error', ref.error and not started and isinstance(circ.error, edzed.EdzedCircuitError),
                      info=lambda: (ref.error, started, circ.error))
            try:
                await simtask
            except BaseException:
                pass
            env.check('no-timer-after-stop', not timers())
            return

        def check_get_state():
            gs = fsm.get_state()
            env.check('get-state-timer', (gs[1] is None) == (ref.expiry is None) and gs[0] == ref.state,
                      info=lambda: (gs, ref.state, ref.expiry))
        check_get_state()

        def step(i):
            now = loop.time()
            sync_ref(now, lambda: len(probe.log))
            if ref.error:
                return False
            et = ev0 if (i == 0 and ev0) else env.pick(FSM_EVENTS_BASE, f'ev{i}')
            d2v, d2 = (None, None)
            data = {}
            if et in ('arm', 'goto-armed') and k2 != 'absent':
                d2v, d2 = dur_value(env, k2, f'd2_{i}')
                data['duration'] = d2v
            if et == 'hop-armed' and k2 != 'absent':
                # outer 'duration' (must be ignored for 'armed') + optionally a 'duration' on the chained event
                data['duration'] = 0.25
                if env.choose(2, f'chain_duration_{i}'):
                    d2v, d2 = dur_value(env, k2, f'd2_{i}')
                    data['chain_duration'] = d2v
                    env.note('chained-event-with-duration')
            exp_ret = ref.event(now, et, clamp(d2))
            real_et = {'goto-idle': Goto('idle'), 'goto-armed': Goto('armed')}.get(et, et)
            if et in ('hop-idle', 'hop-armed'):
                data['to'] = et[4:]
            try:
                ret = fsm.event(real_et, **data)
            except edzed.EdzedCircuitError:
                ret = 'error'
            if ref.error:
                env.note('no-duration')
                env.check('no-duration-error', ret == 'error' and isinstance(circ.error, edzed.EdzedCircuitError),
                          info=lambda: (ret, circ.error))
                return False
            env.check('fsm-ret', ret is exp_ret, info=lambda: (et, ret, exp_ret))
            env.check('fsm-state', fsm.state == ref.state, info=lambda: (et, fsm.state, ref.state))
            tm = timers()
            env.check('one-timer', len(tm) == (1 if ref.expiry is not None else 0), info=lambda: (tm, ref.expiry))
            if ref.expiry is not None and len(tm) == 1:
                # ... and it is due at the expected instant (durations given as strings are never seen firing within
                # the horizon; a rejected event must not have re-armed the timer)
                env.check('timer-due', eq_(tm[0].when(), ref.expiry), info=lambda: (et, tm[0].when(), ref.expiry))
            check_get_state()
            if ref.expiry is None and ref.state == 'armed':
                env.note('armed-without-timer')
            if d2 is not None and not isinstance(d2, str) and d2 != 'inf':
                if d2 <= 0:
                    env.note('zero-duration')
            if d2 == 'inf' or (d2 is None and ref.eff('armed', None) == 'inf'):
                env.note('inf-duration')

        await drive(loop, gaps, step, presched)
        if not ref.error:
            # stop after a symbolic delay, then let the clock run on: nothing may fire any more
            await asyncio.sleep(t_stop_gap)
            now = loop.time()
            sync_ref(now, lambda: len(probe.log))
            if ref.expiry is not None:
                env.note('stop-before-expiry')
            if ref.state == 'armed' and ref.expiry is None and not accept:
                env.note('timed-event-rejected')
                env.check('rejected-no-timer', fsm.state == 'armed' and not timers())
                env.note('rejected-by-the-table' if reject == 'rule' else 'rejected-by-cond')
            check_get_state()
            env.check('fsm-state', fsm.state == ref.state, info=lambda: (fsm.state, ref.state))
            env.check('fsm-output', fsm.output == ref.state)
            n_before = len(probe.log)
            await circ.shutdown()
            env.check('no-timer-after-stop', not timers(), info=timers)
            await asyncio.sleep(horizon)
            env.check('nothing-after-stop', len(probe.log) == n_before and not timers())
            got = [(t, et, d['state']) for t, et, d in probe.log]
            env.obs('fsm', [(e, s) for _, e, s in got])
            env.check('fsm-log', logs_equal(got, ref.log), info=lambda: (got, ref.log))
        else:
            try:
                await simtask
            except BaseException:
                pass
            env.check('no-timer-after-stop', not timers())
    vloop.run(main())


# ------------------------------------------------------------------------------------------
# Timer

class TimerRef:
    def __init__(self, t_on, t_off, restartable):
        self.t = {'on': t_on, 'off': t_off}       # None -> INF (class default)
        self.restartable = restartable
        self.state = None
        self.expiry = None
        self.log = []

    def _enter(self, now, state, d2=None):
        self.expiry = None
        while True:
            self.state = state
            d = d2 if d2 is not None else self.t[state]
            d2 = None
            if d is None or d == 'inf':
                break
            if d <= 0:
                state = 'off' if state == 'on' else 'on'
                # chained zero-length state; both zero would be an endless chain (not generated)
                continue
            self.expiry = now + d
            break
        self.log.append((now, self.state))

    def fire(self):
        now = self.expiry
        self._enter(now, 'off' if self.state == 'on' else 'on')

    def event(self, now, etype, d2=None):
        if etype == 'start':
            if not self.restartable and self.state == 'on':
                return False
            self._enter(now, 'on', d2)
            return True
        if etype == 'stop':
            if not self.restartable and self.state == 'off':
                return False
            self._enter(now, 'off', d2)
            return True
        self._enter(now, 'off' if self.state == 'on' else 'on', d2)    # toggle
        return True


def scen_timer(env, mode, restartable, nev, presched=False, ev0=None):
    circ = fresh_circuit()
    loopref = []
    probe = Probe('probe', clock=lambda: loopref[0].time())
    kw = {}
    t_on = t_off = None
    if mode == 'mono':
        t_on = env.real('t_on', -1, 50)
        kw['t_on'] = t_on
    elif mode == 'astable':
        t_on = env.real('t_on', 0, 50, lo_open=True)
        t_off = env.real('t_off', -1, 50)
        kw['t_on'], kw['t_off'] = t_on, t_off
    elif mode == 'period':
        p = env.real('t_period', 0, 50, lo_open=True)
        kw['t_period'] = p
        t_on = t_off = p / 2
    elif mode == 'mono-off':
        t_off = env.real('t_off', -1, 50)
        kw['t_off'] = t_off
    initdef = env.pick(['off', 'on'], 'initdef')
    tm = edzed.Timer('tm', restartable=restartable, initdef=initdef,
                     on_output=edzed.Event(probe, 'out'), **kw)
    ref = TimerRef(clamp(t_on), clamp(t_off), restartable)
    gaps = [env.real(f'gap{i}', 0, 60) for i in range(nev)]
    maxfire = 4

    def timers():
        return live_block_timers(loopref[0], circ)

    def sync_ref(now):
        n = 0
        while ref.expiry is not None:
            if ref.expiry < now:
                env.note('event-after-expiry')
            elif ref.expiry == now:
                env.note('tie-event-expiry')
                # not fired yet <=> the handle armed for this expiry is still live (the state alone does not tell:
                # with a zero-length next state the machine is back in the same state after the expiry)
                if [h for h in timers() if bool(eq_(h.when(), ref.expiry))]:
                    env.note('tie-event-first')
                    break
            else:
                env.note('event-before-expiry')
                break
            ref.fire()
            n += 1
            if n > maxfire:
                raise AssertionError("bound")

    async def main():
        loop = asyncio.get_running_loop()
        loopref.append(loop)
        asyncio.create_task(circ.run_forever())
        await circ.wait_init()
        ref._enter(loop.time(), initdef)
        def step(i):
            now = loop.time()
            sync_ref(now)
            et = ev0 if (i == 0 and ev0) else env.pick(['start', 'stop', 'toggle'], f'ev{i}')
            data = {}
            d2 = None
            if env.choose(2, f'with_duration{i}'):
                if mode == 'bistable' and env.choose(2, f'duration_kind{i}'):
                    # zero / negative (the state is left at once, invisible) or INF_TIME (never)
                    if env.choose(2, f'duration_inf{i}'):
                        d2 = 'inf'
                        data['duration'] = INF_TIME
                        env.note('inf-duration')
                    else:
                        d2v = env.real(f'd2_{i}', -5, 0)
                        d2 = 0.0
                        data['duration'] = d2v
                        env.note('zero-duration')
                else:
                    d2 = env.real(f'd2_{i}', 0, 50, lo_open=True)
                    data['duration'] = d2
            exp_ret = ref.event(now, et, d2)
            ret = tm.event(et, **data)
            env.check('timer-ret', ret is exp_ret, info=lambda: (et, ret, exp_ret))
            env.check('timer-state', tm.state == ref.state and tm.output == (ref.state == 'on'),
                      info=lambda: (et, tm.state, ref.state))
            env.check('one-timer', len(timers()) == (1 if ref.expiry is not None else 0),
                      info=lambda: (timers(), ref.expiry))
            if ref.expiry is not None and len(timers()) == 1:
                env.check('timer-due', eq_(timers()[0].when(), ref.expiry), info=lambda: (et, timers()[0].when(), ref.expiry))

        if mode in ('astable', 'period'):
            # keep astable runs bounded (assumed BEFORE the waits): every gap is shorter than 1.5 periods
            for g in gaps:
                env.assume(g <= 3 * ((t_on if t_on is not None else 0) + (t_off if t_off is not None else 0)) / 2)
        await drive(loop, gaps, step, presched)
        # the stop comes a symbolic while after the last event: the expiry armed by that event is observed too
        g_stop = env.real('stop_gap', 0, 60)
        if mode in ('astable', 'period'):
            env.assume(g_stop <= 3 * ((t_on if t_on is not None else 0) + (t_off if t_off is not None else 0)) / 2)
        await asyncio.sleep(g_stop)
        sync_ref(loop.time())          # an expiry due at this very instant has run before this task resumed
        if ref.expiry is not None:
            env.note('stop-before-expiry')
        env.check('timer-state', tm.state == ref.state and tm.output == (ref.state == 'on'),
                  info=lambda: ('before stop', tm.state, ref.state))
        gs = tm.get_state()
        env.check('get-state-timer', (gs[1] is None) == (ref.expiry is None), info=lambda: (gs, ref.expiry))
        await circ.shutdown()
        env.check('no-timer-after-stop', not timers())
        n0 = len(probe.log)
        await asyncio.sleep(500.0)
        env.check('nothing-after-stop', len(probe.log) == n0)
        got = [(t, 'on' if d['value'] else 'off') for t, _, d in probe.log]
        # on_output reports changes only; the reference log holds every (re)entry
        exp = []
        for t, s in ref.log:
            if not exp or exp[-1][1] != s:
                exp.append((t, s))
        env.obs('timer', mode, [s for _, s in got])
        env.check('timer-log', logs_equal(got, exp), info=lambda: (got, exp, ref.log))
    vloop.run(main())


# ------------------------------------------------------------------------------------------
# InputExp

def scen_inputexp(env, kdef, kev, nev, presched=False, with_init=False):
    circ = fresh_circuit()
    loopref = []
    probe = Probe('probe', clock=lambda: loopref[0].time())
    dv, d = dur_value(env, kdef if kdef != 'absent' else 'none', 'duration')
    init_given = bool(with_init)
    ALLOWED = ['EXPIRED', ('v', 'init')] + [('v', i) for i in range(nev)]
    ikw = {'initdef': ('v', 'init')} if init_given else {}
    ie = edzed.InputExp('ie', duration=dv, expired='EXPIRED', allowed=ALLOWED, on_output=edzed.Event(probe, 'out'), **ikw)
    d = clamp(d)
    gaps = [env.real(f'gap{i}', 0, 60) for i in range(nev)]
    ref = {'value': 'EXPIRED', 'expiry': None, 'log': [], 'error': False}

    def timers():
        return live_block_timers(loopref[0], circ)

    def out(now, v):
        if not ref['log'] or not (ref['log'][-1][1] is v or (not is_sym(v) and ref['log'][-1][1] == v)):
            ref['log'].append((now, v))
        ref['value'] = v

    def sync_ref(now):
        if ref['expiry'] is None:
            return
        if ref['expiry'] < now:
            env.note('event-after-expiry')
        elif ref['expiry'] == now:
            env.note('tie-event-expiry')
            if ie.state == 'valid':
                env.note('tie-event-first')
                return
        else:
            env.note('event-before-expiry')
            return
        out(ref['expiry'], 'EXPIRED')
        ref['expiry'] = None

    async def main():
        loop = asyncio.get_running_loop()
        loopref.append(loop)
        simtask = asyncio.create_task(circ.run_forever())
        try:
            await circ.wait_init()
            started = True
        except edzed.EdzedInvalidState:
            started = False
        if init_given:
            # the block starts in the timed state 'valid' with the default duration
            env.note('initial-timed-state')
            if d is None:
                env.note('no-duration')
                env.check('no-duration-error', not started and isinstance(circ.error, edzed.EdzedCircuitError))
                try:
                    await simtask
                except BaseException:
                    pass
                env.check('no-timer-after-stop', not timers())
                return
            if d == 'inf':
                out(loop.time(), ('v', 'init'))
            elif d <= 0:
                out(loop.time(), 'EXPIRED')
            else:
                out(loop.time(), ('v', 'init'))
                ref['expiry'] = loop.time() + d
        else:
            out(loop.time(), 'EXPIRED')
        env.check('iexp-started', started, info=lambda: circ.error)
        env.check('iexp-output', ie.output == ref['value'], info=lambda: (ie.output, ref['value']))
        env.check('one-timer', len(timers()) == (1 if ref['expiry'] is not None else 0))
        vals = []
        def step(i):
            now = loop.time()
            sync_ref(now)
            if env.choose(2, f'bad_value{i}'):
                # a put refused by the validators: the value AND the pending timer stay as they are
                env.note('put-refused')
                before = (ie.output, ie.state, [h.when() for h in timers()])
                r = ie.event('put', value='NOT-ALLOWED', duration=1.0)
                env.check('iexp-refused', r is False and (ie.output, ie.state) == before[:2]
                          and len(timers()) == len(before[2]) and all(eq_(h.when(), w) is True or bool(eq_(h.when(), w))
                                                                      for h, w in zip(timers(), before[2])),
                          info=lambda: (r, before, ie.output, ie.state))
                return None
            v = ('v', i)
            data = {'value': v}
            d2 = None
            if kev != 'absent':
                d2v, d2 = dur_value(env, kev, f'd2_{i}')
                data['duration'] = d2v
                d2 = clamp(d2)
            eff = d2 if d2 is not None else d
            try:
                ret = ie.event('put', **data)
            except edzed.EdzedCircuitError:
                ret = 'error'
            if eff is None:
                env.note('no-duration')
                env.check('no-duration-error', ret == 'error' and isinstance(circ.error, edzed.EdzedCircuitError))
                ref['error'] = True
                return False
            env.check('iexp-ret', ret is True)
            ref['expiry'] = None
            if eff == 'inf':
                env.note('inf-duration')
                out(now, v)
            elif eff <= 0:
                env.note('zero-duration')
                # value replaced by the expired value at once; the intermediate state is invisible
                out(now, 'EXPIRED')
            else:
                out(now, v)
                ref['expiry'] = now + eff
            env.check('iexp-output', ie.output == ref['value'], info=lambda: (ie.output, ref['value']))
            env.check('one-timer', len(timers()) == (1 if ref['expiry'] is not None else 0))

        await drive(loop, gaps, step, presched)
        if ref['error']:
            try:
                await simtask
            except BaseException:
                pass
            env.check('no-timer-after-stop', not timers())
            return
        g = env.real('stop_gap', 0, 100)
        await asyncio.sleep(g)
        sync_ref(loop.time())
        if ref['expiry'] is not None:
            env.note('stop-before-expiry')
        env.check('iexp-output', ie.output == ref['value'], info=lambda: (ie.output, ref['value']))
        await circ.shutdown()
        env.check('no-timer-after-stop', not timers())
        n0 = len(probe.log)
        await asyncio.sleep(500.0)
        env.check('nothing-after-stop', len(probe.log) == n0)
        got = [(t, dd['value']) for t, _, dd in probe.log]
        env.obs('iexp', [v for _, v in got])
        env.check('iexp-log', logs_equal(got, ref['log']), info=lambda: (got, ref['log']))
    vloop.run(main())


def scen_selfloop(env, presched=False):
    """a timed state whose timed event re-enters the same state: one expiry per period, exactly one timer pending
    at any time; an external event re-entering the state restarts the period; stop at a symbolic instant"""
    circ = fresh_circuit()
    loopref = []
    probe = Probe('probe', clock=lambda: loopref[0].time())
    d = env.real('period', 1, 50)

    class Loop(edzed.FSM):
        STATES = ['s']
        TIMERS = {'s': (None, 'tick')}
        EVENTS = [('tick', None, 's'), ('again', None, 's')]
    fsm = Loop('fsm', t_s=d, on_enter_s=edzed.Event(probe, 'enter'), on_exit_s=edzed.Event(probe, 'exit'))
    g1 = env.real('gap_again', 0, 120)
    g2 = env.real('gap_stop', 0, 120)
    env.assume(g1 <= 3 * d)
    env.assume(g2 <= 3 * d)
    exp = []

    def timers():
        return live_block_timers(loopref[0], circ)

    async def main():
        loop = asyncio.get_running_loop()
        loopref.append(loop)
        asyncio.create_task(circ.run_forever())
        await circ.wait_init()
        t0 = loop.time()
        exp.append((t0, 'enter'))
        state = {'next': t0 + d}

        def advance(now):
            n = 0
            while bool(state['next'] < now) or (bool(state['next'] == now) and len(probe.log) > len(exp)):
                exp.append((state['next'], 'exit'))
                exp.append((state['next'], 'enter'))
                state['next'] = state['next'] + d
                n += 1
                if n > 4:
                    raise AssertionError('bound')
            if bool(state['next'] == now):
                env.note('tie-event-first')

        def step(i):
            now = loop.time()
            advance(now)
            r = fsm.event('again')
            exp.append((now, 'exit'))
            exp.append((now, 'enter'))
            state['next'] = now + d
            env.check('one-timer', len(timers()) == 1, info=timers)
        await drive(loop, [g1], step, presched)
        await asyncio.sleep(g2)
        advance(loop.time())
        env.check('one-timer', len(timers()) == 1, info=timers)
        await circ.shutdown()
        env.check('no-timer-after-stop', not timers())
        n0 = len(probe.log)
        await asyncio.sleep(500.0)
        env.check('nothing-after-stop', len(probe.log) == n0)
        got = [(t, et) for t, et, _ in probe.log]
        env.check('selfloop-log', logs_equal([(t, e) for t, e in got], exp), info=lambda: (got, exp))
    vloop.run(main())


def shards(tier):
    nev = BOUNDS[tier]['external_events']
    out = []
    for k0 in ('none', 'sym', 'inf', 'str'):
        for k1 in DKINDS:
            for k2 in DKINDS:
                ks = (k0, k1, k2)
                n = nev
                if tier == 'thorough' and (ks.count('sym') > 1 or 'str' in ks):
                    n = 2          # 3 external events only where at most one duration source is symbolic
                if tier == 'quick':
                    if 'str' in (k1, k2) and ks not in (('none', 'str', 'absent'), ('none', 'none', 'str')):
                        continue
                    if k0 == 'str' and (k1, k2) != ('absent', 'absent'):
                        continue
                    if ks.count('sym') == 3:
                        n = 1
                    elif ks.count('sym') == 2:
                        continue
                for ev0 in (FSM_EVENTS if n > 1 else [None]):
                    if ev0 in ('disarm', 'poke') and tier == 'quick' and 'sym' not in ks:
                        continue
                    out.append({'name': f'fsm d0={k0} t_armed={k1} duration={k2} n={n} ev0={ev0}', 'scenario': 'scen_fsm',
                                'params': {'k0': k0, 'k1': k1, 'k2': k2, 'nev': n, 'ev0': ev0},
                                'cost': 3 ** ks.count('sym')})
                    if ev0 in ('hop-idle', 'hop-armed') and tier == 'quick' and ks.count('sym') != 1:
                        out.pop()
                        continue
                    if 'sym' in ks and ev0 in ('arm', 'goto-armed', None) and (tier == 'thorough' or ks.count('sym') == 1):
                        # events pre-scheduled as loop callbacks: at a tie they run BEFORE the block's timer
                        out.append({'name': f'fsm d0={k0} t_armed={k1} duration={k2} n={n} ev0={ev0} presched',
                                    'scenario': 'scen_fsm',
                                    'params': {'k0': k0, 'k1': k1, 'k2': k2, 'nev': n, 'ev0': ev0, 'presched': True},
                                    'cost': 3 ** ks.count('sym')})
    # the timed event refused by the transition table (target None) instead of a condition
    for ks in (('sym', 'absent', 'absent'), ('none', 'sym', 'absent'), ('none', 'none', 'sym')):
        for ps in (False, True):
            out.append({'name': f'fsm d0={ks[0]} t_armed={ks[1]} duration={ks[2]} tick refused by the table' + (' presched' if ps else ''),
                        'scenario': 'scen_fsm',
                        'params': {'k0': ks[0], 'k1': ks[1], 'k2': ks[2], 'nev': 2, 'ev0': 'arm', 'presched': ps, 'reject': 'rule'},
                        'cost': 3})
    # the FSM starts in the timed state (initdef='armed'): duration from t_armed / the class default, none = error
    for k0 in ('none', 'sym', 'inf', 'str'):
        for k1 in DKINDS:
            if tier == 'quick' and 'str' in (k0, k1) and (k0, k1) != ('str', 'absent'):
                continue
            out.append({'name': f'fsm d0={k0} t_armed={k1} initial state armed', 'scenario': 'scen_fsm',
                        'params': {'k0': k0, 'k1': k1, 'k2': 'absent', 'nev': 1, 'ev0': None, 'init_state': 'armed'},
                        'cost': 3})
    for mode in ('bistable', 'mono', 'mono-off', 'astable', 'period'):
        for restartable in (True, False):
            n = nev if mode in ('bistable', 'mono', 'mono-off') else max(1, nev - 1)
            for ps in (False, True):
                if ps and mode == 'bistable':
                    continue
                for e0 in (['start', 'stop', 'toggle'] if mode in ('mono', 'mono-off') and n > 1 else [None]):
                    out.append({'name': f'timer {mode} restartable={restartable} n={n}' + (' presched' if ps else '')
                                        + (f' ev0={e0}' if e0 else ''),
                                'scenario': 'scen_timer',
                                'params': {'mode': mode, 'restartable': restartable, 'nev': n, 'presched': ps, 'ev0': e0},
                                'cost': 10})
    for kdef in ('none', 'sym', 'inf', 'str'):
        for kev in DKINDS:
            for ps in (False, True):
                if ps and 'sym' not in (kdef, kev):
                    continue
                out.append({'name': f'inputexp duration={kdef} per-event={kev} n={nev}' + (' presched' if ps else ''),
                            'scenario': 'scen_inputexp', 'params': {'kdef': kdef, 'kev': kev, 'nev': nev, 'presched': ps}})
        for ps in (False, True):
            if ps and kdef != 'sym':
                continue
            out.append({'name': f'inputexp duration={kdef} with initdef' + (' presched' if ps else ''),
                        'scenario': 'scen_inputexp',
                        'params': {'kdef': kdef, 'kev': 'absent', 'nev': 1, 'presched': ps, 'with_init': True}})
    for ps in (False, True):
        out.append({'name': 'self-loop timed state' + (' presched' if ps else ''), 'scenario': 'scen_selfloop', 'params': {'presched': ps}})
    return out
