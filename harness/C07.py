"""
C07 - TimeDate and TimeSpan outputs follow the wall clock.

Real code executed symbolically (virtual-time loop, SYMBOLIC WALL CLOCK): Cron._maintask (three
step sleep logic, reload, reset), Cron.add_block/remove_block/reload, TimeDate.recalc/
_event_reconfig/_parse3, TimeSpan.recalc/_event_reconfig, _Interval.__contains__/_cmp_open/
_cmp_closed/range_endpoints.

The wall-clock time at start is a symbolic integer number of microseconds in a window around the
configured boundaries; the observation / reconfiguration / clock-jump instants are symbolic
reals.  Oracle: an independent calendar predicate (a z3 formula over the microsecond-of-day term
and the path-concrete date), asserted at every observation farther than the tolerance (5 ms)
from every configured boundary; Circuit.error must stay None.
"""
import asyncio
import datetime as dt
import types
import z3
from symx.core import And_, Or_, Not_, Iff_, If_, eq_, truthy, is_sym
from symx.edz import fresh_circuit
from symx import vloop
from symx.wallclock import Clock, SymDateTime, US_DAY, _t_us
import edzed
from edzed.blocklib import cron

PROPERTY = 'C07'
LEVEL = 'model_checking'
TOL_US = 5000
# a plain float run of the cron loop on the zero-latency virtual clock can livelock on IEEE rounding vs. the
# microsecond truncation of the clock; counterexamples are therefore also replayed exactly (see DESIGN.md)
ALLOW_PINNED_REPLAY = True
PLAIN_REPLAY_TIMEOUT = 6
BOUNDS = {'quick': {'start window': 'any microsecond within +-3 s of a configured boundary (or of midnight)',
                    'observations': 'start + 1 symbolic instant <= 8 s later (<= 1 boundary crossing) + reconfig',
                    'configs': 'catalog of 10 TimeDate/TimeSpan configurations, 3 base dates, local/UTC',
                    'clock jump': 'forward, 30 s .. 1 h, at a symbolic instant between 9:00 and 9:30, or in the evening, jump <= 2 h from 22:40..22:55 (quick) / <= 3 h from 22:05..23:55 (thorough), over midnight or not'},
          'thorough': {'start window': 'as quick', 'observations': 'start + 2 symbolic instants (<= 2 crossings) + reconfig',
                       'configs': 'catalog, 2 blocks sharing the scheduler', 'clock jump': 'as quick'}}
OUTSIDE = ["configured endpoints are concrete (they are dictionary keys inside Cron)", "real DST / time-zone behaviour of "
           "datetime.now()", "runs of several days", "wake-up latency in the quick tier (thorough: one symbolic latency <= 1 ms applied to every wake-up, two configurations)",
           "backward clock jumps", "more than 2 blocks per scheduler"]
STUBS = ["Cron.dtnow -> symbolic wall clock (symx/wallclock.py): base date + symbolic microseconds, reads truncated to 1 us "
         "(scen_utc_and_local: the real Cron.dtnow() runs on a stub of datetime.now(tz); local time = UTC + 2 h)",
         "cron.time.sleep advances the virtual clock", "virtual-time loop"]
ASSUMPTIONS = ["tolerance around a boundary: 5 ms (statement: 'a few milliseconds')"]
EXPECT_LABELS = {'all': ['output-at-start', 'output-later', 'no-error', 'after-reconfig', 'jump-survived', 'after-jump']}
EXPECT_NOTES = {'all': ['start-just-before-boundary', 'start-just-after-boundary', 'crossed-boundary', 'crossed-midnight',
                        'observation-near-boundary', 'jump-over-midnight', 'utc-and-local-blocks']}
FLOORS = {'quick': {'paths': 100, 'checks': 300}, 'thorough': {'paths': 500, 'checks': 1500}}

H = 3_600_000_000
M = 60_000_000
S = 1_000_000


def us(h, m=0, s=0, u=0):
    return h * H + m * M + s * S + u


# catalog: name -> (block kind, kwargs, boundaries (us of day) worth starting near, predicate)
# predicate(date: dt.date, tod_us: int|SymInt) -> bool | SymBool

def in_range(x, lo, hi):
    if lo < hi:
        return And_(lo <= x, x < hi)
    return Or_(lo <= x, x < hi)          # wrapping; equal endpoints = whole day


CONFIGS = {
    'plain': ('td', dict(times='10:00-10:30'), [us(10), us(10, 30)],
              lambda d, x: in_range(x, us(10), us(10, 30))),
    'wrap-midnight': ('td', dict(times='23:59:58 - 0:00:02'), [us(23, 59, 58), 0, us(0, 0, 2)],
                      lambda d, x: in_range(x, us(23, 59, 58), us(0, 0, 2))),
    'equal-endpoints': ('td', dict(times='7:00-7:00'), [us(7)], lambda d, x: True),
    'usec': ('td', dict(times=[[[12, 0, 0, 500], [12, 0, 1, 250000]]]), [us(12, 0, 0, 500), us(12, 0, 1, 250000)],
             lambda d, x: in_range(x, us(12, 0, 0, 500), us(12, 0, 1, 250000))),
    'two-ranges': ('td', dict(times='10:00-10:00:02, 10:00:03-10:00:05'), [us(10), us(10, 0, 2), us(10, 0, 3), us(10, 0, 5)],
                   lambda d, x: Or_(in_range(x, us(10), us(10, 0, 2)), in_range(x, us(10, 0, 3), us(10, 0, 5)))),
    'dates-yearend': ('td', dict(dates='Dec 31 - Jan 1', times='23:59:59-0:00:01'), [us(23, 59, 59), 0, us(0, 0, 1)],
                      lambda d, x: And_((d.month, d.day) in ((12, 31), (1, 1)), in_range(x, us(23, 59, 59), us(0, 0, 1)))),
    'feb29': ('td', dict(dates='Feb 29'), [0], lambda d, x: (d.month, d.day) == (2, 29)),
    'weekdays': ('td', dict(weekdays='67', times='23:59:59-0:00:01'), [us(23, 59, 59), 0, us(0, 0, 1)],
                 lambda d, x: And_(d.isoweekday() in (6, 7), in_range(x, us(23, 59, 59), us(0, 0, 1)))),
    'near-hour': ('td', dict(times='11:59:59.9995-12:00:30'), [us(11, 59, 59, 999500), us(12, 0, 30)],
                  lambda d, x: in_range(x, us(11, 59, 59, 999500), us(12, 0, 30))),
    'nothing': ('td', dict(), [us(5)], lambda d, x: False),
    'empty-times': ('td', dict(times=()), [us(5)], lambda d, x: False),
    'only-weekdays': ('td', dict(weekdays=[1, 2, 3, 4, 5]), [0], lambda d, x: d.isoweekday() <= 5),
}


# configurations used only as the source / target of a 'reconfig': an old endpoint exactly at midnight (the
# scheduler entry that also serves as the daily wake-up for dates and weekdays), a new configuration without times
CONFIGS_RECONF = {
    'from-midnight': ('td', dict(times='0:00-0:00:02'), [0, us(0, 0, 2)], lambda d, x: in_range(x, 0, us(0, 0, 2))),
    'until-midnight': ('td', dict(times='23:59:58-0:00'), [us(23, 59, 58), 0], lambda d, x: x >= us(23, 59, 58)),
    'whole-day-sat': ('td', dict(times='0:0-0:0', weekdays='6'), [0], lambda d, x: d.isoweekday() == 6),
    'sat-only': ('td', dict(weekdays='6'), [0], lambda d, x: d.isoweekday() == 6),
}


def config(name):
    return CONFIGS[name] if name in CONFIGS else CONFIGS_RECONF[name]


def span_pred(lo, hi):
    def pred(base, off_us):          # off_us: microseconds since base midnight
        a = (lo.date() - base).days * US_DAY + _t_us(lo.time())
        b = (hi.date() - base).days * US_DAY + _t_us(hi.time())
        return And_(a <= off_us, off_us < b)
    return pred


class Run:
    def __init__(self, env, base, w0, utc):
        self.env, self.base = env, base
        self.clock = Clock(env, base, w0)
        self.utc = utc
        self.circ = fresh_circuit()

    def __enter__(self):
        self.saved = (cron.Cron.dtnow, cron.time)
        clock = self.clock
        cron.Cron.dtnow = lambda self_: clock.dtnow()

        def vsleep(x):
            loop = asyncio.get_running_loop()
            loop.advance_to(loop.time() + x)
        cron.time = types.SimpleNamespace(sleep=vsleep)
        return self

    def __exit__(self, *exc):
        cron.Cron.dtnow, cron.time = self.saved
        return False

    def split(self, off_us):
        """(date, time-of-day us) of a wall-clock reading; forks at midnight crossings"""
        d = 0
        while not (off_us < (d + 1) * US_DAY):
            d += 1
        return self.base + dt.timedelta(days=d), off_us - d * US_DAY, d

    def near(self, tod, bounds):
        conds = []
        for b in bounds:
            conds.append(And_(tod >= b - TOL_US, tod <= b + TOL_US))
            if b == 0:
                conds.append(tod >= US_DAY - TOL_US)
        return Or_(*conds) if conds else False


def window(env, name, bounds, span_us=3 * S, bidx=None):
    """symbolic start: within +-span of one of the boundaries (solver picks which)"""
    if bidx is not None and bidx >= len(bounds):
        from symx.core import PathAbort
        raise PathAbort()
    b = bounds[env.choose(len(bounds), f'{name}_boundary') if bidx is None else bidx]
    delta = env.int(f'{name}_delta', -span_us, span_us)
    w = b + delta
    if b == 0:
        w = w + (US_DAY if env.choose(2, f'{name}_before_midnight') else 0)
        env.assume(And_(w >= 0, w < US_DAY + span_us))
        if env.possible(w >= US_DAY):
            pass
    env.assume(w >= 0)
    return w, b


BASES = {'feb28': dt.date(2024, 2, 28), 'dec31': dt.date(2024, 12, 31), 'mid': dt.date(2025, 6, 13), 'sat': dt.date(2025, 6, 14)}


def observe(env, run, blk, pred, bounds, label, kind='td', extra=None):
    now_off = run.clock.now_us()
    date, tod, dcount = run.split(now_off)
    if dcount > 0:
        env.note('crossed-midnight')
    near = run.near(tod, bounds)
    exp = pred(date, tod) if kind == 'td' else pred(run.base, now_off)
    if env.possible(near):
        env.note('observation-near-boundary')
    out = blk.output
    ok = Or_(near, Iff_(bool(out), exp)) if isinstance(out, bool) or out is None else False
    env.check(label, ok, info=lambda: (blk.name, out, date, tod, extra))
    env.check('no-error', run.circ.error is None, info=lambda: run.circ.error)
    return tod


def scen_timedate(env, cfg, base, utc, second_cfg=None, nobs=1, bidx=None, latency=False):
    kind, kw, bounds, pred = CONFIGS[cfg]
    w0, b0 = window(env, 'w0', bounds, bidx=bidx)
    with Run(env, BASES[base], w0, utc) as run:
        td = edzed.TimeDate('td', utc=utc, **kw)
        others = []
        if second_cfg:
            k2, kw2, bounds2, pred2 = CONFIGS[second_cfg]
            td2 = edzed.TimeDate('td2', utc=utc, **kw2)
            others.append((td2, pred2, bounds2))
        gaps = [env.real(f'gap{i}', 0, 8) for i in range(nobs)]

        delta = env.real('wakeup_latency', 0, 0.001) if latency else None

        async def main():
            if latency:
                # every wake-up of the event loop overshoots by a symbolic latency <= 1 ms
                asyncio.get_running_loop().latency_hook = lambda when: when + delta
            asyncio.create_task(run.circ.run_forever())
            await run.circ.wait_init()
            t_start = observe(env, run, td, pred, bounds, 'output-at-start')
            if env.possible(And_(t_start < b0, t_start >= b0 - S)) or b0 == 0:
                env.note('start-just-before-boundary')
            if env.possible(And_(t_start >= b0, t_start < b0 + S)):
                env.note('start-just-after-boundary')
            for blk, p2, bd2 in others:
                observe(env, run, blk, p2, bd2, 'output-at-start')
            prev = t_start
            for i in range(nobs):
                await asyncio.sleep(gaps[i])
                t = observe(env, run, td, pred, bounds, 'output-later', extra=('gap', i))
                for bb in bounds:
                    if env.possible(And_(prev < bb, t >= bb)):
                        env.note('crossed-boundary')
                        break
                prev = t
                for blk, p2, bd2 in others:
                    observe(env, run, blk, p2, bd2, 'output-later')
            await run.circ.shutdown()
        vloop.run(main())


UTC_AHEAD_US = -2 * H          # local time = UTC + 2 h


class RunTZ(Run):
    """like Run, but the REAL Cron.dtnow() runs: the module's `dt.datetime.now(tz)` is the symbolic wall clock - local
    time without an argument, UTC (two hours behind) with a time zone argument - so a mix-up of the two schedulers,
    or a cron ignoring its utc flag, shows in the outputs"""

    def __enter__(self):
        self.saved = (cron.dt, cron.time)
        clock = self.clock
        real = cron.dt

        class FakeNow(SymDateTime):
            def replace(self_, tzinfo=None):
                return self_

        class FakeDateTime:
            @staticmethod
            def now(tz=None):
                us_now = clock.now_us()
                return FakeNow(clock.base, us_now + (UTC_AHEAD_US if tz is not None else 0))
        cron.dt = types.SimpleNamespace(datetime=FakeDateTime, time=real.time, date=real.date, timedelta=real.timedelta,
                                        timezone=real.timezone)

        def vsleep(x):
            loop = asyncio.get_running_loop()
            loop.advance_to(loop.time() + x)
        cron.time = types.SimpleNamespace(sleep=vsleep)
        return self

    def __exit__(self, *exc):
        cron.dt, cron.time = self.saved
        return False


def scen_utc_and_local(env, bidx):
    """one block in UTC mode and one in local mode with the SAME configured times, local time two hours ahead of UTC:
    each follows its own clock (start near a boundary of either, one later observation)"""
    kind, kw, bounds, pred = CONFIGS['plain']           # 10:00-10:30
    both = sorted(set(bounds + [b - UTC_AHEAD_US for b in bounds]))      # local instants at which either block switches
    w0, b0 = window(env, 'w0', both, bidx=bidx)
    with RunTZ(env, BASES['mid'], w0, False) as run:
        td_l = edzed.TimeDate('td_local', utc=False, **kw)
        td_u = edzed.TimeDate('td_utc', utc=True, **kw)
        gap = env.real('gap0', 0, 8)

        def observe2(label):
            now_off = run.clock.now_us()
            date, tod, dcount = run.split(now_off)
            for blk, shift in ((td_l, 0), (td_u, UTC_AHEAD_US)):
                t = tod + shift
                out = blk.output
                ok = Or_(run.near(t, bounds), Iff_(bool(out), pred(date, t))) if isinstance(out, bool) else False
                env.check(label, ok, info=lambda: (blk.name, out, tod))
            env.check('no-error', run.circ.error is None, info=lambda: run.circ.error)

        async def main():
            asyncio.create_task(run.circ.run_forever())
            await run.circ.wait_init()
            observe2('output-at-start')
            env.check('two-schedulers', {'_cron_local', '_cron_utc'} <= {b.name for b in run.circ.getblocks()})
            await asyncio.sleep(gap)
            observe2('output-later')
            env.note('utc-and-local-blocks')
            await run.circ.shutdown()
        vloop.run(main())


def scen_reconfig(env, cfg, newcfg, base, bidx=None, span_s=2, gmax=3):
    """a 'reconfig' event at a symbolic instant, arbitrarily close to a boundary of the old or new configuration"""
    kind, kw, bounds, pred = config(cfg)
    k2, kw2, bounds2, pred2 = config(newcfg)
    w0, b0 = window(env, 'w0', sorted(set(bounds + bounds2)), span_us=span_s * S, bidx=bidx)
    with Run(env, BASES[base], w0, False) as run:
        td = edzed.TimeDate('td', **kw)
        other = edzed.TimeDate('other', **kw)         # shares the scheduler, is NOT reconfigured
        g1 = env.real('gap_reconfig', 0, gmax)
        g2 = env.real('gap_after', 0, gmax)

        async def main():
            asyncio.create_task(run.circ.run_forever())
            await run.circ.wait_init()
            observe(env, run, td, pred, bounds, 'output-at-start')
            await asyncio.sleep(g1)
            td.event('reconfig', **{k: v for k, v in kw2.items()})
            observe(env, run, td, pred2, bounds2, 'after-reconfig', extra='immediately')
            observe(env, run, other, pred, bounds, 'output-later', extra='bystander')
            await asyncio.sleep(g2)
            observe(env, run, td, pred2, bounds2, 'after-reconfig', extra='later')
            observe(env, run, other, pred, bounds, 'output-later', extra='bystander later')
            await run.circ.shutdown()
        vloop.run(main())


def scen_timespan(env, base, nobs=1, bidx=None, by_seq=None):
    # narrower windows than scen_timedate: three boundaries are crossed
    b = BASES[base]
    lo = dt.datetime.combine(b, dt.time(23, 59, 58))
    hi = dt.datetime.combine(b + dt.timedelta(days=1), dt.time(0, 0, 3, 500000))
    bounds = [us(23, 59, 58), us(0, 0, 3, 500000), 0]
    pred = span_pred(lo, hi)
    w0, b0 = window(env, 'w0', [us(23, 59, 58), 0], span_us=S, bidx=bidx)
    with Run(env, b, w0, False) as run:
        by_seq = env.choose(2, 'span_as_seq') if by_seq is None else by_seq
        span = [[[lo.year, lo.month, lo.day, 23, 59, 58], [hi.year, hi.month, hi.day, 0, 0, 3, 500000]]] if by_seq else \
            f"{lo.isoformat(sep=' ')} / {hi.isoformat(sep=' ')}"
        ts = edzed.TimeSpan('ts', span=span)
        gaps = [env.real(f'gap{i}', 0, 4) for i in range(nobs)]

        async def main():
            asyncio.create_task(run.circ.run_forever())
            await run.circ.wait_init()
            observe(env, run, ts, pred, bounds, 'output-at-start', kind='ts')
            for i in range(nobs):
                await asyncio.sleep(gaps[i])
                observe(env, run, ts, pred, bounds, 'output-later', kind='ts')
            # reconfigure to an empty / past span: always False afterwards
            ts.event('reconfig', span=() if env.choose(2, 'empty') else
                     [[[2000, 1, 1, 0, 0], [2000, 1, 2, 0, 0]]])
            observe(env, run, ts, lambda base_, off: False, [], 'after-reconfig', kind='ts')
            await asyncio.sleep(2.0)
            observe(env, run, ts, lambda base_, off: False, [], 'after-reconfig', kind='ts')
            await run.circ.shutdown()
        vloop.run(main())


def scen_jump(env, cfg, base, evening=False):
    """a forward jump of the system clock at a symbolic instant: never terminates the simulation,
    outputs correct again within one hour.  evening: the application runs late in the evening, so the jump
    (up to 1 h) may or may not carry the clock over midnight - into another date / weekday"""
    if cfg == 'span-empty':
        kind, kw, bounds, pred = 'ts', dict(span=()), [], (lambda base_, off: False)
    else:
        kind, kw, bounds, pred = CONFIGS[cfg]
    w0 = env.int('w0', us(22, 40 if evening == 'narrow' else 5), us(22 if evening == 'narrow' else 23, 55)) if evening else env.int('w0', us(9), us(9, 30))
    with Run(env, BASES[base], w0, False) as run:
        blk = edzed.TimeDate('td', **kw) if kind == 'td' else edzed.TimeSpan('ts', **kw)
        t_jump = env.real('t_jump', 0, 20)
        J = env.int('jump_us', 30 * S, ((2 if evening == 'narrow' else 3) if evening else 1) * 3600 * S)

        async def main():
            task = asyncio.create_task(run.circ.run_forever())
            await run.circ.wait_init()
            await asyncio.sleep(t_jump)
            run.clock.offset_us = J
            if env.possible(w0 + J >= US_DAY):
                env.note('jump-over-midnight')
            await asyncio.sleep(3600.0)
            env.check('jump-survived', run.circ.error is None and not task.done(), info=lambda: run.circ.error)
            if run.circ.error is None:
                observe(env, run, blk, pred, bounds, 'after-jump', kind=kind)
                await run.circ.shutdown()
            else:
                try:
                    await task
                except BaseException:
                    pass
        vloop.run(main())


def scen_jump_reconfig(env):
    """a forward clock jump, later (after the scheduler has recovered) a 'reconfig' shortly before a
    regular wake-up: the new boundaries must be served like any others"""
    w0 = env.int('w0', us(9, 59, 30), us(9, 59, 40))
    with Run(env, BASES['mid'], w0, False) as run:
        kind, kw, bounds, pred = CONFIGS['plain']
        td = edzed.TimeDate('td', **kw)
        t_jump = env.real('t_jump', 0, 10)
        J = 90 * S          # concrete here (symbolic in scen_jump): keeps the later queries small
        r = env.real('reconfig_offset', 0, 4)
        gap = env.real('gap', 0, 9)
        new_lo, new_hi = us(10, 29, 50), us(10, 29, 55)
        new_pred = lambda d, x: in_range(x, new_lo, new_hi)

        async def main():
            task = asyncio.create_task(run.circ.run_forever())
            await run.circ.wait_init()
            await asyncio.sleep(t_jump)
            run.clock.offset_us = J
            # sleep until the wall clock shows 10:29:45 + r  (the 10:00 wake-up detects the jump meanwhile)
            target = (us(10, 29, 45) - w0 - J) / 1000000 + r
            await asyncio.sleep(target - t_jump)
            env.check('jump-survived', run.circ.error is None and not task.done(), info=lambda: run.circ.error)
            observe(env, run, td, pred, bounds, 'after-jump')
            td.event('reconfig', times='10:29:50-10:29:55')
            observe(env, run, td, new_pred, [new_lo, new_hi], 'after-reconfig', extra='immediately')
            await asyncio.sleep(gap)
            observe(env, run, td, new_pred, [new_lo, new_hi], 'after-reconfig', extra='later')
            await run.circ.shutdown()
        vloop.run(main())


def shards(tier):
    out = [{'name': 'clock jump, then reconfig before a wake-up', 'scenario': 'scen_jump_reconfig', 'cost': 40}]
    for cfg in CONFIGS:
        bases = ['mid']
        if cfg in ('dates-yearend',):
            bases = ['dec31']
        if cfg == 'feb29':
            bases = ['feb28']
        if cfg in ('weekdays', 'only-weekdays'):
            bases = ['mid', 'sat'] if (tier == 'thorough' or cfg == 'only-weekdays') else ['sat']
        if cfg == 'wrap-midnight':
            bases = ['mid', 'dec31'] if tier == 'thorough' else ['mid']
        nb = len(CONFIGS[cfg][2])
        for base in bases:
            for utc in ((False, True) if cfg in ('plain', 'wrap-midnight') else (False,)):
                if tier == 'quick' and utc and cfg != 'plain':
                    continue
                for bidx in range(nb):
                    out.append({'name': f'timedate {cfg} base={base} utc={utc} boundary={bidx}', 'scenario': 'scen_timedate',
                                'params': {'cfg': cfg, 'base': base, 'utc': utc, 'nobs': 1 if tier == 'quick' else 2,
                                           'bidx': bidx}, 'cost': 10})
    pairs = (('plain', 'usec'), ('nothing', 'near-hour')) if tier == 'quick' else (
        ('nothing', 'near-hour'),
        ('plain', 'two-ranges'), ('two-ranges', 'plain'), ('plain', 'nothing'), ('nothing', 'wrap-midnight'),
        ('wrap-midnight', 'equal-endpoints'), ('plain', 'usec'), ('nothing', 'plain'))
    for a, b in pairs:
        nb = len(set(CONFIGS[a][2] + CONFIGS[b][2]))
        for bidx in range(nb):
            if tier == 'quick' and (a, b, bidx) in (('plain', 'usec', 1), ('plain', 'usec', 2)):
                continue        # thorough only (the sub-millisecond neighbourhood is covered by nothing->near-hour)
            out.append({'name': f'reconfig {a}->{b} boundary={bidx}', 'scenario': 'scen_reconfig',
                        'params': {'cfg': a, 'newcfg': b, 'base': 'mid', 'bidx': bidx,
                                   'span_s': 1 if tier == 'quick' else 2, 'gmax': 2 if tier == 'quick' else 3}, 'cost': 40})
    # the old configuration has an endpoint exactly at midnight, the new one depends on the date only; bidx 0 = midnight
    for a, b, base in (('whole-day-sat', 'sat-only', 'sat'), ('from-midnight', 'feb29', 'feb28'), ('until-midnight', 'sat-only', 'sat')):
        if tier == 'quick' and a != 'whole-day-sat':
            continue
        out.append({'name': f'reconfig {a}->{b} base={base} around midnight', 'scenario': 'scen_reconfig',
                    'params': {'cfg': a, 'newcfg': b, 'base': base, 'bidx': 0,
                               'span_s': 1 if tier == 'quick' else 2, 'gmax': 2 if tier == 'quick' else 3}, 'cost': 40})
    for bidx in ((1, 2) if tier == 'quick' else range(4)):
        out.append({'name': f'UTC and local block, real Cron.dtnow(), boundary={bidx}', 'scenario': 'scen_utc_and_local',
                    'params': {'bidx': bidx}, 'cost': 20})
    for bidx in range(1 if tier == 'quick' else 2):
        out.append({'name': f'two blocks plain+two-ranges boundary={bidx}', 'scenario': 'scen_timedate',
                    'params': {'cfg': 'plain', 'base': 'mid', 'utc': False, 'second_cfg': 'two-ranges', 'nobs': 1, 'bidx': bidx},
                    'cost': 20})
    for base in ('dec31', 'mid'):
        for bidx in range(2):
            for by_seq in (0, 1):
                if tier == 'quick' and (base, bidx, by_seq) not in (('dec31', 0, 0), ('dec31', 1, 1), ('mid', 1, 0)):
                    continue
                out.append({'name': f'timespan base={base} boundary={bidx} seq={by_seq}', 'scenario': 'scen_timespan',
                            'params': {'base': base, 'bidx': bidx, 'by_seq': by_seq}, 'cost': 30})
    if tier == 'thorough':
        for cfg in ('plain', 'usec'):
            for bidx in range(2):
                out.append({'name': f'timedate {cfg} with wake-up latency boundary={bidx}', 'scenario': 'scen_timedate',
                            'params': {'cfg': cfg, 'base': 'mid', 'utc': False, 'nobs': 1, 'bidx': bidx, 'latency': True},
                            'cost': 50})
    for cfg in (('plain', 'span-empty') if tier == 'quick' else ('plain', 'nothing', 'span-empty', 'only-weekdays')):
        out.append({'name': f'clock jump {cfg}', 'scenario': 'scen_jump', 'params': {'cfg': cfg, 'base': 'mid'}, 'cost': 30})
    # a jump that may carry the clock over midnight: Friday -> Saturday, Feb 28 -> Feb 29, Saturday -> Sunday 0:00:01
    for cfg, base in ((('only-weekdays', 'mid'),) if tier == 'quick' else
                      (('only-weekdays', 'mid'), ('feb29', 'feb28'), ('weekdays', 'sat'), ('plain', 'mid'))):
        out.append({'name': f'clock jump in the evening {cfg} base={base}', 'scenario': 'scen_jump',
                    'params': {'cfg': cfg, 'base': base, 'evening': 'narrow' if tier == 'quick' else 'wide'}, 'cost': 60})
    return out
