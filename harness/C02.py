"""
C02 - output events reproduce the source block's output history exactly.

Real code executed symbolically: SBlock.set_output, CBlock.eval_block, Event.__init__/send,
event_tuple/_to_tuple, SBlock.event, Input._event_put, FuncBlock.calc_output, InputGetter.

The sequence of assigned values is symbolic (unbounded ints; "changed or not" is a path region
decided by the solver) or drawn by the solver from a pool of equal-but-not-identical values
(1 / True / 1.0, 0 / False / 0.0, None, tuples, strings).  Fan-outs of 0..3 events per trigger,
given as a single object, list or tuple, with passing / rejecting / rewriting filters.
A reference model written from docs/events.rst produces the expected global delivery log.
"""
from symx.core import And_, Or_, Not_, Iff_, eq_, is_sym
from symx.edz import sync_circuit, start_sync, SinkProbe, Settable
import edzed
from edzed import UNDEF

PROPERTY = 'C02'
LEVEL = 'model_checking'
BOUNDS = {'quick': {'assignments': 3, 'fanout': '0..3 per trigger', 'pool_assignments': 3},
          'thorough': {'assignments': 4, 'fanout': '0..3 per trigger', 'pool_assignments': 4}}
OUTSIDE = ["more than 3 events per trigger",
           "sequences longer than the bound"]
STUBS = ["Circuit.sblock_queue = list-backed stub; start sequence = real resolver/finalize/init methods",
         "CBlock sender evaluated by calling the real eval_block() after each input change"]
ASSUMPTIONS = ["filters are pure"]
EXPECT_LABELS = {'all': ['log-length', 'log-entry', 'sync', 'pool-log']}
EXPECT_NOTES = {'all': ['unchanged-assignment', 'changed-assignment', 'equal-not-identical', 'nan-reassigned',
                        'glitch-two-events-in-one-settle']}
FLOORS = {'quick': {'paths': 500, 'checks': 2000}, 'thorough': {'paths': 5000, 'checks': 20000}}

NAN = float('nan')        # one shared object: equal-by-identity but unequal to itself
POOL = [1, True, 1.0, 0, False, None, (1,), (1.0,), 'a', 2, NAN]


def wrap_events(evs, form):
    if not evs:
        return None if form == 0 else ([] if form == 1 else ())
    if form == 0 and len(evs) == 1:
        return evs[0]
    return list(evs) if form == 1 else tuple(evs)


def make_events(env, sink, trig, count, filt_kinds, conds):
    """count events, each to its own probe; returns [(event, probe_name, filter_kind, cond)]"""
    out = []
    for i in range(count):
        name = f'{trig}{i}'
        SinkProbe(name, sink=sink)
        fk = filt_kinds[i] if i < len(filt_kinds) else 'none'
        cond = None
        if fk == 'none':
            ef = None
        elif fk == 'pass':
            ef = lambda d: True
        elif fk == 'reject-sym':
            cond = conds[name] = env.bool(f'pass_{name}')
            ef = (lambda c: (lambda d: c))(cond)
        elif fk == 'rewrite':
            ef = lambda d: {**d, 'extra': 7, 'value': (d['value'], 'w')}
        elif fk == 'empty':
            ef = lambda d: {}           # accepted: a mapping replaces the data - the handler gets no items at all
        elif fk == 'inplace':
            def ef(d):                  # edits the delivery's own dict and returns a plain true value
                d['extra'] = 7
                del d['previous']
                return 1
        out.append((edzed.Event(name, f'ev_{name}', efilter=ef), name, fk, cond))
    return out


def expected_entry(pname, fk, prev, val, sender):
    data = {'previous': prev, 'value': val, 'source': sender, 'trigger': 'output'}
    if fk == 'rewrite':
        data = {**data, 'extra': 7, 'value': (val, 'w')}
    elif fk == 'empty':
        data = {}
    elif fk == 'inplace':
        data = {'value': val, 'source': sender, 'trigger': 'output', 'extra': 7}
    return (pname, f'ev_{pname}', data)


def entry_eq(got, exp):
    if got[0] != exp[0] or got[1] != exp[1] or set(got[2]) != set(exp[2]):
        return False
    conds = []
    for k, ev in exp[2].items():
        gv = got[2][k]
        if ev is UNDEF or gv is UNDEF:
            conds.append(ev is gv)
        elif isinstance(ev, tuple) and isinstance(gv, tuple) and len(ev) == len(gv):
            conds.append(And_(*[eq_(a, b) for a, b in zip(gv, ev)]))
        else:
            conds.append(eq_(gv, ev))
    return And_(*conds)


def scen_sym(env, sender, n, n_out, n_every):
    """symbolic integer assignments"""
    circ = sync_circuit()
    sink = []
    conds = {}
    fk_out = [env.pick(['none', 'pass', 'reject-sym', 'rewrite', 'empty', 'inplace'], f'fo{i}') for i in range(n_out)]
    fk_every = [env.pick(['none', 'reject-sym', 'rewrite', 'empty', 'inplace'], f'fe{i}') for i in range(n_every)]
    form = env.choose(3, 'form')
    evs_out = make_events(env, sink, 'o', n_out, fk_out, conds)
    evs_every = make_events(env, sink, 'e', n_every, fk_every, conds) if sender != 'cblock' else []
    kw = {'on_output': wrap_events([e[0] for e in evs_out], form)}
    if sender != 'cblock':
        kw['on_every_output'] = wrap_events([e[0] for e in evs_every], form)
    if sender == 'settable':
        src = Settable('src', **kw)
        assign = lambda v: src.event('set', value=v)
    elif sender == 'input':
        src = edzed.Input('src', **kw)
        assign = lambda v: src.event('put', value=v)
    else:
        inp = Settable('inp')
        src = edzed.FuncBlock('src', func=lambda x: x, **kw).connect(inp)

        def assign(v):
            inp.event('set', value=v)
            src.eval_block()
    start_sync(circ)
    prev = UNDEF
    expected = []
    for k in range(n):
        v = env.int(f'v{k}')
        mark = len(sink)
        assign(v)
        # --- reference model ---
        if prev is UNDEF:
            changed = True
        else:
            changed = bool(Not_(eq_(prev, v)))     # forks in the reference: a documented condition
        env.note('changed-assignment' if changed else 'unchanged-assignment')
        exp_now = []
        if changed:
            for ev, pname, fk, cond in evs_out:
                if fk == 'reject-sym' and not cond:
                    continue
                exp_now.append(expected_entry(pname, fk, prev, v, 'src'))
        for ev, pname, fk, cond in evs_every:
            if fk == 'reject-sym' and not cond:
                continue
            exp_now.append(expected_entry(pname, fk, prev, v, 'src'))
        got_now = sink[mark:]
        # synchronous delivery: complete when the assignment returns
        env.check('sync', len(got_now) == len(exp_now), info=lambda: (k, got_now, exp_now))
        expected.extend(exp_now)
        if changed:
            prev = v
        env.check('output', eq_(src.output, prev))
    env.obs('log', len(sink), 'expected', len(expected))
    env.check('log-length', len(sink) == len(expected), info=lambda: (sink, expected))
    for g, e in zip(sink, expected):
        env.check('log-entry', entry_eq(g, e), info=lambda: (g, e))


def scen_pool(env, sender, n):
    """values from the pool of equal-but-not-identical objects"""
    circ = sync_circuit()
    sink = []
    SinkProbe('o0', sink=sink)
    SinkProbe('e0', sink=sink)
    kw = {'on_output': edzed.Event('o0', 'ev_o0')}
    if sender == 'settable':
        src = Settable('src', on_every_output=edzed.Event('e0', 'ev_e0'), **kw)
        assign = lambda v: src.event('set', value=v)
    else:
        inp = Settable('inp')
        src = edzed.FuncBlock('src', func=lambda x: x, **kw).connect(inp)

        def assign(v):
            inp.event('set', value=v)
            src.eval_block()
    start_sync(circ)
    prev = UNDEF
    expected = []
    for k in range(n):
        v = POOL[env.choose(len(POOL), f'p{k}')]
        assign(v)
        changed = prev is UNDEF or prev != v        # 'consecutive values that compare unequal' (NaN != NaN)
        if v is NAN and prev is NAN:
            env.note('nan-reassigned')
        if not changed and prev is not v and type(prev) is not type(v):
            env.note('equal-not-identical')
        if changed:
            expected.append(expected_entry('o0', 'none', prev, v, 'src'))
        if sender == 'settable':
            expected.append(expected_entry('e0', 'none', prev, v, 'src'))
        if changed:
            prev = v
    ok = len(sink) == len(expected) and all(
        g[0] == e[0] and g[1] == e[1] and set(g[2]) == set(e[2])
        and all((g[2][key] is e[2][key]) or (g[2][key] == e[2][key] and type(g[2][key]) is type(e[2][key]))
                for key in e[2])
        for g, e in zip(sink, expected))
    env.check('pool-log', ok, info=lambda: (sink, expected))
    env.check('pool-output', (src.output is prev) or (src.output == prev and type(src.output) is type(prev)))


def scen_cblock_in_simulator(env):
    """a combinational sender evaluated by the REAL simulator (hand-driven _simulate, solver-chosen evaluation order):
    when the block is evaluated twice while the circuit settles (a glitch: F -> T -> F, depending on the order) every
    one of those changes is an event with the right 'previous'; a re-evaluation with an unchanged value is none; the
    first evaluation reports previous = UNDEF"""
    from harness.simdrive import Driver
    drv = Driver()
    sink = []
    SinkProbe('o0', sink=sink)
    returned = []

    def f_and(a, b):
        r = bool(a) and not bool(b)
        returned.append(r)
        return r
    v0 = env.int('i0_init')
    i0 = edzed.Input('i0', initdef=v0)
    # n1 = not not i0 arrives two evaluations after a change of i0: src (a direct successor of i0, like n0) may be
    # evaluated first with the old n1 - settled value: always False, glitch: True
    edzed.Not('n0').connect(i0)
    edzed.Not('n1').connect('n0')
    src = edzed.FuncBlock('src', func=f_and, on_output=edzed.Event('o0', 'ev_o0')).connect(i0, 'n1')
    drv.start()
    err = drv.run_to_idle()
    env.check('sync', err is None, info=lambda: err)
    if err:
        return
    per_settle = []
    for k in range(2):
        v = env.int(f'v{k}')
        n0 = len(sink)
        i0.event('put', value=v)
        err = drv.run_to_idle()
        env.check('sync', err is None, info=lambda: err)
        if err:
            return
        per_settle.append(len(sink) - n0)
    drv.close()
    # expected: the successive CHANGES among the values the block's function returned, starting from UNDEF
    expected = []
    prev = UNDEF
    for r in returned:
        if prev is UNDEF or prev != r:
            expected.append((prev, r))
            prev = r
    if max(per_settle, default=0) >= 2:
        env.note('glitch-two-events-in-one-settle')
    got = [(d['previous'], d['value']) for _, _, d in sink]
    env.check('log-length', len(got) == len(expected), info=lambda: (got, expected, returned))
    env.check('log-entry', all((g[0] is e[0] or g[0] == e[0]) and g[1] == e[1] for g, e in zip(got, expected))
              and all(d['source'] == 'src' and d['trigger'] == 'output' for _, _, d in sink), info=lambda: (got, expected))
    env.check('output', src.output == (returned[-1] if returned else UNDEF))


def shards(tier):
    b = BOUNDS[tier]
    out = []
    for sender in ('settable', 'input', 'cblock'):
        for n_out in range(4):
            for n_every in (range(4) if sender != 'cblock' else [0]):
                if tier == 'quick' and n_out + n_every > 4:
                    continue
                n = b['assignments'] if n_out + n_every <= 3 else b['assignments'] - 1
                out.append({'name': f'sym {sender} out={n_out} every={n_every} n={n}', 'scenario': 'scen_sym',
                            'params': {'sender': sender, 'n': n, 'n_out': n_out, 'n_every': n_every},
                            'cost': 6 ** (n_out + n_every)})
    out.append({'name': 'cblock sender inside the simulator (glitch)', 'scenario': 'scen_cblock_in_simulator', 'cost': 5})
    for sender in ('settable', 'cblock'):
        out.append({'name': f'pool {sender}', 'scenario': 'scen_pool',
                    'params': {'sender': sender, 'n': b['pool_assignments']}, 'cost': 50})
    return out
