"""
C03 - an FSM follows its transition table and runs its actions in the documented order.

Real code executed symbolically: FSM.__init_subclass__/_build_tables (classes are created by the
real machinery from solver-chosen tables), FSM.__init__, _event/_ctx_event, _run_cb,
_send_events, _start_timer (zero / infinite durations), calc_output, SBlock.event (EventCond
loop, handler dispatch), SBlock.set_output, Event.send.

Harness 1 (one step, table family): 3 states, 2 events; the two cells a step can consult -
(event, current state) and (event, any state) - range over {absent, None, s1, s2, s3}; the other
cells take decoy fillings; cond_ results are symbolic booleans, event data are symbolic ints.
Harness 2 (sequences on a catalog): chained entries, double/endless chains, zero-duration timed
states, Goto, 'a|b' syntax, any-state rules; solver-chosen sequences.
Oracle: a reference FSM interpreter written from docs/FSM.rst working on the raw tables.
"""
import z3
from symx.core import And_, Or_, Not_, Iff_, eq_, is_sym
from symx.edz import sync_circuit, start_sync, SinkProbe
import edzed
from edzed import Goto, EventCond, UNDEF, INF_TIME

PROPERTY = 'C03'
LEVEL = 'model_checking'
BOUNDS = {'quick': {'table family': '25 cell pairs x 2 decoy fillings x callbacks', 'sequence_len': 3},
          'thorough': {'table family': 'as quick, all callback placements', 'sequence_len': 5}}
OUTSIDE = ["machines with more than 3-4 states", "timed states with positive finite durations (C04)",
           "calc_output overrides returning UNDEF", "sequences longer than the bound"]
STUBS = ["Circuit.sblock_queue = list-backed stub; start sequence = real resolver/finalize/init methods"]
ASSUMPTIONS = ["the relative order of a cond_ method and a cond_ instance callback is unspecified (compared as a multiset)"]
EXPECT_LABELS = {'all': ['step-ret', 'step-state', 'step-log', 'seq-ret', 'seq-state', 'seq-log', 'chain-error',
                         'readonly-data']}
EXPECT_NOTES = {'all': ['initial-state-chains', 'specific-beats-any', 'rejected-none', 'rejected-missing', 'cond-rejected', 'goto',
                        'unknown-event', 'chained', 'notrans-sent']}
FLOORS = {'quick': {'paths': 2000, 'checks': 6000}, 'thorough': {'paths': 20000, 'checks': 60000}}


class ChainError(Exception):
    pass


class RefFSM:
    """Reference interpreter (docs/FSM.rst). Works on the raw STATES / EVENTS / TIMERS tables."""

    def __init__(self, states, events, timers, cond_names, enter_names, exit_names, chain, cond_fn):
        self.states = list(states) + [s for s in timers if s not in states]
        self.table = {}
        self.events = set()
        for ev, frm, to in events:
            self.events.add(ev)
            if frm is None:
                self.table[(ev, None)] = to
            else:
                if isinstance(frm, str):
                    frm = [x.strip() for x in frm.split('|')]
                for s in frm:
                    self.table[(ev, s)] = to
        self.timers = timers            # state -> (0.0 | INF_TIME, timed event)
        self.cond_names = cond_names    # {event: number of cond callbacks (1 or 2)}
        self.enter_names = enter_names  # {state: n}
        self.exit_names = exit_names
        self.chain = chain              # {state: [(etype, data)] requested from enter_state}
        self.cond_fn = cond_fn          # (event, idx) -> bool/SymBool
        self.calc = lambda st: st       # calc_output (default: the state name)
        self.state = None
        self.output = UNDEF
        self.log = []

    def lookup(self, ev):
        if (ev, self.state) in self.table:
            return self.table[(ev, self.state)], 'specific'
        if (ev, None) in self.table:
            return self.table[(ev, None)], 'any'
        return None, 'missing'

    def _accept(self, etype, data, env):
        """decide an event; returns newstate or None (rejected); raises KeyError for unknown"""
        if isinstance(etype, Goto):
            if etype.state not in self.states:
                raise ValueError('unknown state')
            env.note('goto')
            return etype.state
        if not isinstance(etype, str) or etype not in self.events:
            raise KeyError(etype)
        new, how = self.lookup(etype)
        if new is None:
            env.note('rejected-none' if how != 'missing' else 'rejected-missing')
            self.log.append(('ev', 'notrans', etype, self.state))
            env.note('notrans-sent')
            return None
        if how == 'specific' and (etype, None) in self.table:
            env.note('specific-beats-any')
        if self.output is not UNDEF:
            res = []
            for i in range(self.cond_names.get(etype, 0)):
                self.log.append(('cond', etype, data.get('k')))
                res.append(self.cond_fn(etype, i))
            if not all(res):              # forks on the symbolic results, like the documented rule
                env.note('cond-rejected')
                return None
        return new

    def event(self, etype, data, env):
        """returns True/False; raises KeyError (unknown event) or ChainError"""
        new = self._accept(etype, data, env)
        if new is None:
            return False
        if self.state is not None:
            for _ in range(self.exit_names.get(self.state, 0)):
                self.log.append(('exit', self.state, data.get('k')))
            self.log.append(('ev', 'exit', self.state, self.output))
        limit = 3 * len(self.states)
        for _ in range(limit):
            self.state = new
            nxt = None
            n_enter = self.enter_names.get(self.state, 0)
            if n_enter:
                # the first entry callback issues the chained requests, a second one (method after
                # instance function) runs afterwards and still sees this event's data
                self.log.append(('enter', self.state, data.get('k')))
                requests = list(self.chain.get(self.state, []))
                for (cet, cdata) in requests:
                    cn = self._accept(cet, cdata, env)
                    if cn is not None:
                        if nxt is not None:
                            raise ChainError('two events')
                        nxt = (cet, cdata, cn)
                    # the nested event() returns True exactly if the chained transition was accepted
                    self.log.append(('enter-ret', self.state, cn is not None))
                if requests:
                    self.log.append(('enter-after', self.state, data.get('k')))
                for _i in range(n_enter - 1):
                    self.log.append(('enter', self.state, data.get('k')))
            if nxt is None and self.state in self.timers:
                dur, tev = self.timers[self.state]
                if dur != INF_TIME:
                    cn = self._accept(tev, {}, env)
                    if cn is not None:
                        nxt = (tev, {}, cn)
            if nxt is None:
                break
            env.note('chained')
            # intermediate state: no events, no output, but its exit action runs - for the chained event
            etype, data, new = nxt
            for _ in range(self.exit_names.get(self.state, 0)):
                self.log.append(('exit', self.state, data.get('k')))
        else:
            raise ChainError('limit')
        prev = self.output
        self.output = self.calc(self.state)
        if prev is UNDEF or prev != self.output:
            self.log.append(('ev', 'output', prev, self.output))
        self.log.append(('ev', 'enter', self.state, self.output))
        return True


def build_real(env, name, states, events, timers, cond_m, cond_i, enter_m, enter_i, exit_m, exit_i, chain, cond_fn,
               sink, initdef=None, calc=None):
    """Create the class through the real metaclass machinery and one instance with probes."""
    ns = {'STATES': list(states), 'EVENTS': [tuple(e) for e in events], 'TIMERS': dict(timers)}

    def mk_cond(ev, idx):
        def cond(self=None):
            d = edzed.fsm_event_data.get()
            sink.append(('cond', ev, d.get('k')))
            try:
                d['hack'] = 1
                sink.append(('NOT-READONLY',))
            except TypeError:
                pass
            return cond_fn(ev, idx)
        return cond

    def mk_action(kind, st, with_chain):
        def action(self=None):
            d = edzed.fsm_event_data.get()
            sink.append((kind, st, d.get('k')))
            try:
                d['hack'] = 1
                sink.append(('NOT-READONLY',))
            except TypeError:
                pass
            if with_chain:
                for cet, cdata in chain.get(st, []):
                    r = holder['fsm'].event(cet, **cdata)
                    sink.append((kind + '-ret', st, r))
                if chain.get(st):
                    # still the data of the event that caused THIS action (a nested event has its own context)
                    sink.append((kind + '-after', st, edzed.fsm_event_data.get().get('k')))
        return action
    holder = {}
    for ev in cond_m:
        ns['cond_' + ev] = mk_cond(ev, 0)
    chain_done = set()
    for st in enter_m:
        # when an instance callback exists too it runs first and does the chaining
        ns['enter_' + st] = mk_action('enter', st, st not in enter_i)
        if st not in enter_i:
            chain_done.add(st)
    for st in exit_m:
        ns['exit_' + st] = mk_action('exit', st, False)
    if calc is not None:
        ns['calc_output'] = lambda self: calc(self._state)
    cls = type('Gen' + name, (edzed.FSM,), ns)
    kw = {}
    for ev in cond_i:
        kw['cond_' + ev] = mk_cond(ev, 1 if ev in cond_m else 0)
    for st in enter_i:
        kw['enter_' + st] = mk_action('enter', st, True)
    for st in exit_i:
        kw['exit_' + st] = mk_action('exit', st, False)
    all_states = list(states) + [s for s in timers if s not in states]
    probe = SinkProbe('probe', sink=None)
    probe.sink = _Adapter(sink)
    for st in all_states:
        kw['on_enter_' + st] = edzed.Event(probe, 'on_enter')
        kw['on_exit_' + st] = edzed.Event(probe, 'on_exit')
    if initdef:
        kw['initdef'] = initdef
    fsm = cls(name, on_notrans=edzed.Event(probe, 'on_notrans'), on_output=edzed.Event(probe, 'on_output'), **kw)
    holder['fsm'] = fsm
    return fsm


class _Adapter:
    """turns probe deliveries into reference-log entries"""

    def __init__(self, sink):
        self.s = sink

    def __len__(self):
        return len(self.s)

    def append(self, item):
        _, etype, d = item
        if etype == 'on_notrans':
            ok = d['trigger'] == 'notrans' and d['source'] == 'fsm'
            self.s.append(('ev', 'notrans', d['event'], d['state']) if ok else ('BAD', d))
        elif etype == 'on_output':
            self.s.append(('ev', 'output', d['previous'], d['value']))
        else:
            trig = etype[3:]
            ok = d['trigger'] == trig and d['source'] == 'fsm' and 'sdata' in d
            self.s.append(('ev', trig, d['state'], d['value']) if ok else ('BAD', d))


def normalise(log):
    """consecutive cond entries are an unordered group"""
    out, grp = [], []
    for e in log:
        if e[0] == 'cond':
            grp.append(e)
        else:
            out.extend(sorted(grp, key=repr))
            grp = []
            out.append(e)
    out.extend(sorted(grp, key=repr))
    return out


def logs_eq(got, exp):
    got, exp = normalise(got), normalise(exp)
    if len(got) != len(exp):
        return False
    conds = []
    for g, e in zip(got, exp):
        if len(g) != len(e) or g[0] != e[0]:
            return False
        for a, b in zip(g[1:], e[1:]):
            if a is UNDEF or b is UNDEF or a is None or b is None or isinstance(a, (str, bool)) or isinstance(b, (str, bool)):
                if not (a is b or a == b):
                    return False
            else:
                conds.append(eq_(a, b))
    return And_(*conds)


S = ['s1', 's2', 's3']
CELL = ['absent', None, 's1', 's2', 's3']


def scen_step(env, c_spec, c_any, decoy, cbmode):
    """one event() call in state s1 of a machine from the table family"""
    events = []
    if c_spec != 'absent':
        events.append(('e1', ['s1'], c_spec))
    if c_any != 'absent':
        events.append(('e1', None, c_any))
    # decoy cells: consulted only by a wrong lookup
    if decoy == 0:
        events += [('e1', ['s2'], 's3'), ('e1', 's3', 's2'), ('e2', None, 's3'), ('e2', ['s1'], 's2')]
    else:
        events += [('e1', 's2 | s3', None), ('e2', ['s1'], None), ('e2', ['s2', 's3'], 's1')]
    cond_m = {'e1'} if cbmode in ('method', 'both') else set()
    cond_i = {'e1'} if cbmode in ('inst', 'both') else set()
    act_m = set(S) if cbmode in ('method', 'both') else set()
    act_i = set(S) if cbmode in ('inst', 'both') else set()
    conds = {}

    def cond_fn(ev, idx):
        key = (ev, idx)
        if key not in conds:
            conds[key] = env.bool(f'cond_{ev}_{idx}')
        return conds[key]
    n = lambda m, i, x: (1 if x in m else 0) + (1 if x in i else 0)
    circ = sync_circuit()
    sink = []
    fsm = build_real(env, 'fsm', S, events, {}, cond_m, cond_i, act_m, act_i, act_m, act_i, {}, cond_fn, sink)
    ref = RefFSM(S, events, {}, {e: n(cond_m, cond_i, e) for e in ('e1', 'e2')},
                 {s: n(act_m, act_i, s) for s in S}, {s: n(act_m, act_i, s) for s in S}, {}, cond_fn)
    start_sync(circ)
    ref.event(Goto('s1'), {}, env)
    env.check('init-log', logs_eq(sink, ref.log), info=lambda: (sink, ref.log))
    del sink[:]
    del ref.log[:]
    k = env.int('k')
    kind = env.pick(['e1', 'e2', 'unknown', 'goto', 'goto-bad', 'eventcond', 'empty', 'badtype'], 'event_kind')
    data = {'k': k}
    if kind == 'eventcond':
        v = env.int('value')
        et = EventCond('e1', None if env.choose(2, 'efalse_none') else 'e2')
        data['value'] = v
        chosen = et.etrue if v else et.efalse      # forks on truthiness: the documented selection
        ref_et = chosen
    else:
        et = {'e1': 'e1', 'e2': 'e2', 'unknown': 'zzz', 'goto': Goto('s2'), 'goto-bad': Goto('nowhere'),
              'empty': '', 'badtype': 42}[kind]
        ref_et = et
    # reference
    exp_exc = None
    exp_ret = None
    if ref_et is None:
        exp_ret = None
    elif kind == 'empty':
        exp_exc = ValueError
    elif kind == 'badtype':
        exp_exc = TypeError
    else:
        try:
            exp_ret = ref.event(ref_et, data, env)
        except KeyError:
            exp_exc = edzed.EdzedUnknownEvent
            env.note('unknown-event')
        except ValueError:
            exp_exc = ValueError
    try:
        ret = fsm.event(et, **data)
        exc = None
    except Exception as err:
        ret, exc = None, err
    env.obs('step', c_spec, c_any, kind, ret, fsm.state)
    if exp_exc is not None:
        env.check('step-exc', isinstance(exc, exp_exc), info=lambda: (exc, exp_exc))
        if exp_exc is edzed.EdzedUnknownEvent:
            env.check('unknown-harmless', circ.error is None and fsm.state == 's1')
    else:
        env.check('step-exc', exc is None, info=lambda: exc)
        env.check('step-ret', ret is exp_ret, info=lambda: (kind, ret, exp_ret))
    env.check('step-state', fsm.state == ref.state and fsm.output == ref.output,
              info=lambda: (fsm.state, ref.state, fsm.output, ref.output))
    env.check('step-log', logs_eq(sink, ref.log), info=lambda: (sink, ref.log))
    env.check('readonly-data', ('NOT-READONLY',) not in sink)
    # the block accepts events afterwards (guard released)
    n0 = len(sink)
    try:
        fsm.event(Goto('s3'), k=5)
        env.check('step-after', fsm.state == 's3')
    except edzed.EdzedCircuitError as err:
        env.check('step-after', False, info=lambda: err)


# ---- catalog of machines for sequences -------------------------------------------------------
def catalog():
    cat = {}
    cat['chain'] = dict(states=['a', 'b', 'c'], events=[('go', 'a', 'b'), ('next', 'b', 'c'), ('back', None, 'a'),
                                                        ('next', 'c', None)],
                        timers={}, enter={'a', 'b', 'c'}, exit={'a', 'b', 'c'}, cond={'next', 'back'},
                        chain={'b': [('next', {'k': 99})]}, alphabet=['go', 'back', 'next', 'zzz', Goto('b'), Goto('c')])
    cat['double'] = dict(states=['a', 'b', 'c'], events=[('go', 'a', 'b'), ('n1', 'b', 'c'), ('n2', 'b', 'a'), ('back', None, 'a')],
                         timers={}, enter={'b'}, exit={'b'}, cond={'n1', 'n2'},
                         chain={'b': [('n1', {'k': 71}), ('n2', {'k': 72})]}, alphabet=['go', 'back', Goto('b')])
    cat['endless'] = dict(states=['a', 'b', 'c'], events=[('go', 'a', 'b'), ('ping', 'b', 'c'), ('pong', 'c', 'b'), ('back', None, 'a')],
                          timers={}, enter={'b', 'c'}, exit={'b'}, cond={'pong'},
                          chain={'b': [('ping', {'k': 1})], 'c': [('pong', {'k': 2})]}, alphabet=['go', 'back', Goto('c')])
    cat['zerotimer'] = dict(states=['a', 'c'], events=[('go', 'a', 't'), ('tick', 't', 'c'), ('back', 'c|t', 'a'), ('tick', 'a', None)],
                            timers={'t': (0.0, 'tick'), 'w': (INF_TIME, Goto('a'))}, enter={'t', 'c'}, exit={'t', 'a'},
                            cond={'tick', 'go'}, chain={}, alphabet=['go', 'back', 'tick', Goto('w'), Goto('t')])
    cat['anystate'] = dict(states=['a', 'b', 'c'], events=[('e', None, 'c'), ('e', ['b'], 'a'), ('e', ['c'], None), ('f', 'a | b', 'b'),
                                                           ('g', None, None), ('g', 'c', 'a')],
                           timers={}, enter={'a'}, exit={'c'}, cond={'e', 'f'}, chain={},
                           alphabet=['e', 'f', 'g', 'zzz', Goto('b')])
    cat['gotochain'] = dict(states=['a', 'b', 'c'], events=[('go', 'a', 'b'), ('back', None, 'a')], timers={},
                            enter={'b', 'c'}, exit={'b', 'a'}, cond={'go'},
                            chain={'b': [(Goto('c'), {'k': 55, 'extra': 1})]}, alphabet=['go', 'back', Goto('b')])
    # a chained request without any transition (on_notrans from inside an entry action, state = the new state)
    cat['chain-notrans'] = dict(states=['a', 'b', 'c'], events=[('go', 'a', 'b'), ('nope', 'a', 'c'), ('never', 'b', None), ('back', None, 'a')],
                                timers={}, enter={'b'}, exit={'b', 'a'}, cond={'go'},
                                chain={'b': [('nope', {'k': 31})]}, alphabet=['go', 'back', 'nope', Goto('b')])
    cat['chain-forbidden'] = dict(states=['a', 'b', 'c'], events=[('go', 'a', 'b'), ('never', 'b', None), ('never', None, 'c'), ('back', None, 'a')],
                                  timers={}, enter={'b'}, exit={'b', 'a'}, cond={'go'},
                                  chain={'b': [('never', {'k': 32})]}, alphabet=['go', 'back', 'never', Goto('b')])
    # an entry action that chains in a zero-length timed state: the chained request pre-empts the timed event
    cat['zerotimer-chain'] = dict(states=['a', 'c'], events=[('go', 'a', 't'), ('tick', 't', 'c'), ('back', 'c|t', 'a'), ('tick', 'a', None)],
                                  timers={'t': (0.0, 'tick')}, enter={'t', 'c'}, exit={'t', 'a'},
                                  cond={'tick', 'back'}, chain={'t': [('back', {'k': 41})]}, alphabet=['go', 'back', 'tick', Goto('t')])
    # two intermediate states in one chain (legal: one request per entry action)
    cat['longchain'] = dict(states=['a', 'b', 'c', 'd'], events=[('go', 'a', 'b'), ('n1', 'b', 'c'), ('n2', 'c', 'd'), ('back', None, 'a')],
                            timers={}, enter={'b', 'c', 'd'}, exit={'a', 'b', 'c'}, cond={'n1', 'n2'},
                            chain={'b': [('n1', {'k': 51})], 'c': [('n2', {'k': 52})]}, alphabet=['go', 'back', Goto('b'), Goto('c')])
    return cat


def scen_seq(env, machine, n, inst, init=None, calc=False):
    m = catalog()[machine]
    conds = {}
    ctr = [0]

    def cond_fn(ev, idx):
        # one fresh symbolic bool per consultation would differ between real and reference runs;
        # both consult in the same order, so key by (event, idx, consultation number of that event)
        key = (ev, idx, ctr[0])
        if key not in conds:
            conds[key] = env.bool(f'cond_{ev}_{idx}_{ctr[0]}')
        return conds[key]
    circ = sync_circuit()
    sink = []
    em, ei = (m['enter'], set()) if not inst else (set(), m['enter'])
    if inst == 'both':
        em, ei = m['enter'], m['enter']
    xm, xi = (m['exit'], set()) if not inst else (set(), m['exit'])
    cm, ci = (m['cond'], set()) if not inst else (set(), m['cond'])
    calc_fn = (lambda st: 'out-of-' + st) if calc else None
    fsm = build_real(env, 'fsm', m['states'], m['events'], m['timers'], cm, ci, em, ei, xm, xi, m['chain'], cond_fn, sink,
                     initdef=init, calc=calc_fn)
    ref = RefFSM(m['states'], m['events'], m['timers'], {e: 1 for e in m['cond']},
                 {s: (2 if inst == 'both' else 1) for s in m['enter']}, {s: 1 for s in m['exit']}, m['chain'], cond_fn)
    if calc:
        ref.calc = calc_fn
    ctr[0] = 900
    try:
        start_sync(circ)
        init_exc = None
    except Exception as err:
        init_exc = err
    ctr[0] = 900
    try:
        # the initial state is entered by Goto while the FSM is not initialised: chained / timed events of the
        # initial state are processed WITHOUT consulting conditions (docs/FSM.rst)
        ref.event(Goto(init or m['states'][0]), {}, env)
    except ChainError:
        env.note('chain-error-at-init')
        env.check('chain-error', isinstance(init_exc, edzed.EdzedCircuitError), info=lambda: init_exc)
        return
    env.check('seq-init-exc', init_exc is None, info=lambda: init_exc)
    if init:
        env.note('initial-state-chains')
    env.check('seq-init', logs_eq(sink, ref.log) and fsm.state == ref.state, info=lambda: (sink, ref.log))
    for i in range(n):
        del sink[:]
        del ref.log[:]
        et = env.pick(m['alphabet'], f'ev{i}')
        k = env.int(f'k{i}')
        ctr[0] = i * 10
        saved = ctr[0]
        exp_exc = None
        try:
            exp_ret = ref.event(et, {'k': k}, env)
        except KeyError:
            exp_exc = edzed.EdzedUnknownEvent
            env.note('unknown-event')
        except ChainError:
            exp_exc = edzed.EdzedCircuitError
        ctr[0] = saved
        try:
            ret = fsm.event(et, k=k)
            exc = None
        except Exception as err:
            ret, exc = None, err
        if exp_exc is edzed.EdzedCircuitError:
            env.note('chain-error')
            env.check('chain-error', isinstance(exc, edzed.EdzedCircuitError)
                      and isinstance(circ.error, edzed.EdzedCircuitError), info=lambda: (exc, circ.error))
            return
        if exp_exc is not None:
            env.check('seq-exc', isinstance(exc, exp_exc) and circ.error is None, info=lambda: exc)
        else:
            env.check('seq-exc', exc is None, info=lambda: (et, exc))
            env.check('seq-ret', ret is exp_ret, info=lambda: (et, ret, exp_ret))
        env.check('seq-state', fsm.state == ref.state and fsm.output == ref.output,
                  info=lambda: (et, fsm.state, ref.state))
        env.check('seq-log', logs_eq(sink, ref.log), info=lambda: (et, sink, ref.log))
    env.check('readonly-data', ('NOT-READONLY',) not in sink)
    env.obs('seq', machine, fsm.state)


def shards(tier):
    out = []
    n = BOUNDS[tier]['sequence_len']
    for c_spec in CELL:
        for c_any in CELL:
            for decoy in (0, 1):
                modes = ['none', 'method', 'inst', 'both'] if tier == 'thorough' else (
                    ['both', 'none'] if decoy == 0 else ['method', 'inst'])
                for cb in modes:
                    out.append({'name': f'step spec={c_spec} any={c_any} decoy={decoy} cb={cb}', 'scenario': 'scen_step',
                                'params': {'c_spec': c_spec, 'c_any': c_any, 'decoy': decoy, 'cbmode': cb}})
    for machine in catalog():
        for inst in (False, True, 'both'):
            out.append({'name': f'seq {machine} inst_callbacks={inst} n={n}', 'scenario': 'scen_seq',
                        'params': {'machine': machine, 'n': n, 'inst': inst, 'calc': inst is True}, 'cost': 50})
    # the initial state is itself a chaining / zero-length timed state
    for machine, init in (('chain', 'b'), ('double', 'b'), ('endless', 'b'), ('zerotimer', 't'), ('gotochain', 'b'),
                          ('chain-notrans', 'b'), ('zerotimer-chain', 't'), ('longchain', 'b'), ('anystate', 'c')):
        out.append({'name': f'seq {machine} initdef={init} n={max(1, n - 1)}', 'scenario': 'scen_seq',
                    'params': {'machine': machine, 'n': max(1, n - 1), 'inst': False, 'init': init, 'calc': True}, 'cost': 30})
    return out
