"""
C08 - every started block is stopped exactly once and nothing outlives the simulation.

Real code executed symbolically (virtual-time loop): Circuit.run_forever (all of it),
_stop_sblocks, _run_tasks, abort, shutdown, edzed.run, _TerminatingSignal (SIGTERM raised
synchronously with signal.raise_signal), ControlBlock, AddonMainTask.start/stop_async,
AddonAsync._task_monitor, OutputAsync.stop/stop_async, OutputFunc.stop, FSM.stop, Repeat.

A circuit of instrumented blocks (async probe, sync probe, Timer with a pending timer, Repeat,
OutputAsync and OutputFunc with stop_data, FuncBlock, a main-task block); the FAULT SITE (block x
phase) and the TERMINATION CAUSE are solver-enumerated, the instants of the fault and of the
termination and the duration of stop_async versus stop_timeout are symbolic reals.
"""
import asyncio
import signal
from symx.core import And_, Or_, Not_, Iff_, eq_, is_sym
from symx.edz import fresh_circuit, live_block_timers
from symx import vloop
import edzed

PROPERTY = 'C08'
LEVEL = 'model_checking'
FAULTS = [None, ('pa', 'start'), ('pb', 'start'), ('pb', 'restore'), ('pa', 'init_async'), ('pa', 'init_regular'),
          ('pb', 'init_from_value'), ('fb', 'calc_output'), ('pb', 'event'), ('mt', 'main_task'), ('pa', 'stop'),
          ('pb', 'stop'), ('pa', 'stop_async'), ('oa', 'start')]
CAUSES = ['shutdown', 'support-returns', 'support-raises', 'sigterm', 'ctrl-shutdown', 'ctrl-abort', 'abort', 'cancel', 'none',
          'cblock-shutdown', 'cblock-abort']     # control event sent by a CBlock, i.e. from inside the simulation task
BOUNDS = {'quick': {'fault sites': len(FAULTS), 'termination causes': len(CAUSES),
                    'instants': 't_term, t_fault in [0, 12] s, stop_async duration vs stop_timeout symbolic',
                    'circuit': '10 blocks (two with asynchronous initialisation; OutputAsync in wait and in start mode), 2 creation orders'},
          'thorough': {'fault sites': len(FAULTS), 'termination causes': len(CAUSES), 'instants': 'as quick',
                       'circuit': '8 blocks, 2 creation orders, fault + independent termination combined'}}
OUTSIDE = ["a user start() override that raises after the base class start() has already created a task "
           "(the block is then neither started nor stopped and its task is the block's own leak)",
           "real signal delivery from another process (the handler is invoked synchronously)",
           "two independent faults",
           "other circuit compositions"]
STUBS = ["virtual-time loop with symbolic clock", "signal.raise_signal(SIGTERM) inside a supporting coroutine"]
ASSUMPTIONS = ["blocks created implicitly (_ctrl, automatic Repeat) count as blocks"]
EXPECT_LABELS = {'all': ['stopped-exactly-once', 'not-started-not-stopped', 'async-stopped-first', 'stop-async-bounded',
                         'no-leftover-tasks', 'no-live-timers', 'stop-data-last', 'frozen']}
EXPECT_NOTES = {'all': ['second-termination-during-clean-up', 'fsm-stopped-before-the-output-block', 'output-block-stopped-first', 'term-before-init-done', 'term-while-running', 'fault-before-termination', 'termination-before-fault',
                        'stop-async-timed-out', 'stop-async-completed', 'start-failed']}
FLOORS = {'quick': {'paths': 300, 'checks': 3000}, 'thorough': {'paths': 1000, 'checks': 10000}}


class Log:
    def __init__(self):
        self.ev = []            # (block, what, time)
        self.clock = lambda: 0.0

    def add(self, blk, what):
        self.ev.append((blk, what, self.clock()))

    def count(self, blk, what):
        return sum(1 for b, w, _ in self.ev if b == blk and w == what)

    def index(self, blk, what):
        for i, (b, w, _) in enumerate(self.ev):
            if b == blk and w == what:
                return i
        return None


def instrument(base, log, faults):
    """subclass recording start()/stop() and injecting faults"""
    class I(base):
        def start(self):
            if faults.get((self.name, 'start')):
                # fails as a whole: nothing of the block has been set up (a start() override raising
                # AFTER the base class created its task is outside the claim, see OUTSIDE)
                raise RuntimeError(f"{self.name}.start failed")
            super().start()
            log.add(self.name, 'start-returned')

        def stop(self):
            log.add(self.name, 'stop')
            try:
                super().stop()
            finally:
                if faults.get((self.name, 'stop')):
                    raise RuntimeError(f"{self.name}.stop failed")
    I.__name__ = 'I' + base.__name__
    return I


def build(env, log, faults, order, ds, st, t_fault, cblock_ctrl=None):
    circ = fresh_circuit()

    class PA(edzed.AddonAsync, edzed.SBlock):
        async def init_async(self):
            await asyncio.sleep(5.0)
            if faults.get(('pa', 'init_async')):
                raise RuntimeError("pa.init_async failed")
            self.set_output('async')

        def init_regular(self):
            if faults.get(('pa', 'init_regular')):
                raise RuntimeError("pa.init_regular failed")
            if not self.is_initialized():
                self.set_output('regular')

        async def stop_async(self):
            log.add('pa', 'stop_async-begin')
            try:
                await asyncio.sleep(ds)
                if faults.get(('pa', 'stop_async')):
                    raise RuntimeError("pa.stop_async failed")
                log.add('pa', 'stop_async-end')
            except asyncio.CancelledError:
                log.add('pa', 'stop_async-cancelled')
                raise

        def _event_x(self, **data):
            return 'pa-ok'

    class PB(edzed.AddonPersistence, edzed.SBlock):
        def _restore_state(self, state):
            if faults.get(('pb', 'restore')):
                raise RuntimeError("pb.restore failed")

        def init_from_value(self, value):
            if faults.get(('pb', 'init_from_value')):
                raise RuntimeError("pb.init_from_value failed")
            self.set_output(value)

        def _event_x(self, *, value=None, fail=False, **data):
            if fail:
                self.set_output('half-done')
                raise RuntimeError("pb handler failed")
            self.set_output(value)
            return 'pb-ok'

    class MT(edzed.AddonMainTask, edzed.SBlock):
        def init_regular(self):
            self.set_output(0)

        async def _maintask(self):
            if faults.get(('mt', 'main_task')):
                await asyncio.sleep(t_fault)
                raise RuntimeError("mt main task failed")
            while True:
                await asyncio.sleep(7.0)

    class PA2(edzed.AddonAsync, edzed.SBlock):
        # a second block with an asynchronous initialisation (shorter time-out: awaited after 'pa')
        async def init_async(self):
            await asyncio.sleep(4.0)
            self.set_output('async2')

        def init_regular(self):
            if not self.is_initialized():
                self.set_output('regular2')

    oa_calls, of_calls, oas_calls = [], [], []

    async def oa_coro(value):
        oa_calls.append(value)
        await asyncio.sleep(1.0)

    async def oas_coro(value):
        oas_calls.append(value)
        await asyncio.sleep(0.5)

    def of_func(value):
        of_calls.append(value)

    def fb_func(x):
        if faults.get(('fb', 'calc_output')) and x == 'boom':
            raise ZeroDivisionError("fb calc failed")
        return x

    makers = {
        'pa': lambda: instrument(PA, log, faults)('pa', init_timeout=10.0, stop_timeout=st),
        'pb': lambda: instrument(PB, log, faults)('pb', initdef='pb0', persistent=True),
        'pa2': lambda: instrument(PA2, log, faults)('pa2', init_timeout=6.0),
        'tm': lambda: instrument(edzed.Timer, log, faults)('tm', t_on=3.0, t_off=3.0),
        'rep': lambda: instrument(edzed.Repeat, log, faults)('rep', dest='pa', etype='x', interval=4.0, stop_timeout=2.0),
        'oa': lambda: instrument(edzed.OutputAsync, log, faults)(
            'oa', coro=oa_coro, mode='wait', stop_data={'value': 'OA-STOP'}, on_error=None, stop_timeout=3.0),
        'oas': lambda: instrument(edzed.OutputAsync, log, faults)(
            'oas', coro=oas_coro, mode='start', stop_data={'value': 'OAS-STOP'}, on_error=None, stop_timeout=3.0),
        'of': lambda: instrument(edzed.OutputFunc, log, faults)(
            'of', func=of_func, stop_data={'value': 'OF-STOP'}, on_error=None),
        'mt': lambda: instrument(MT, log, faults)('mt', stop_timeout=2.0),
        'fb': lambda: instrument(edzed.FuncBlock, log, faults)('fb', func=fb_func).connect('pb'),
    }
    if cblock_ctrl:
        # the documented constructors Event.shutdown() / Event.abort() (docs/events.rst), used the documented way:
        # as on_success / on_error events of an output block - which is driven by a combinational block, so the
        # control event is sent from within the simulator task
        order = list(order) + ['killer', 'trig']

        def killer_func(value):
            if cblock_ctrl == 'abort':
                raise RuntimeError('killer failed')
            return 'ok'
        makers['killer'] = lambda: instrument(edzed.OutputFunc, log, faults)(
            'killer', func=killer_func, on_success=edzed.Event.shutdown(), on_error=edzed.Event.abort())
        makers['trig'] = lambda: instrument(edzed.FuncBlock, log, faults)(
            'trig', func=lambda x: x == 'boom',
            on_output=edzed.Event('killer', 'put', efilter=lambda d: d['value'])).connect('pb')
    blocks = {}
    for n in order:
        blocks[n] = makers[n]()
    circ.set_persistent_data({"<IPB 'pb'>": 'saved'})
    return circ, blocks, oa_calls, of_calls, oas_calls


ORDERS = [['pa', 'pb', 'pa2', 'tm', 'rep', 'oa', 'oas', 'of', 'mt', 'fb'], ['fb', 'mt', 'of', 'oas', 'oa', 'rep', 'tm', 'pa2', 'pb', 'pa']]


def scen_life(env, fault_idx, cause, order_idx, sym_stop=False, second=None):
    fault = FAULTS[fault_idx]
    faults = {fault: True} if fault else {}
    log = Log()
    timed_fault = fault in (('pb', 'event'), ('fb', 'calc_output'), ('mt', 'main_task')) and not cause.startswith('cblock-')
    if sym_stop:
        ds = env.real('stop_async_duration', 0, 20, lo_open=True)
        st = env.real('stop_timeout', 0, 20, lo_open=True)
    else:
        ds, st = (1.0, 5.0) if fault != ('pa', 'stop_async') else (1.0, 5.0)
    t_fault = env.real('t_fault', 0, 12) if timed_fault else 0.0
    t_term = env.real('t_term', 5.5, 8) if sym_stop else env.real('t_term', 0, 12)   # sym_stop: running phase only
    cblock_ctrl = cause[7:] if cause.startswith('cblock-') else None
    circ, blocks, oa_calls, of_calls, oas_calls = build(env, log, faults, ORDERS[order_idx], ds, st, t_fault, cblock_ctrl)
    res = {}
    use_run = cause in ('support-returns', 'support-raises', 'sigterm')
    timed_fault = fault in (('pb', 'event'), ('fb', 'calc_output')) and not cause.startswith('cblock-')

    async def fault_task():
        await asyncio.sleep(t_fault)
        log.add('-', 'fault-fired')
        try:
            if fault == ('pb', 'event'):
                blocks['pb'].event('x', fail=True)
            else:
                blocks['pb'].event('x', value='boom')
        except Exception:
            pass

    async def traffic():
        # some ordinary activity: outputs get work before the stop
        await asyncio.sleep(6.0)
        try:
            if circ.is_ready():
                blocks['oa'].event('put', value='w1')
                blocks['oas'].event('put', value='w1')
                blocks['of'].event('put', value='w1')
                blocks['rep'].event('x', value=1)
        except Exception:
            pass

    async def terminator():
        await asyncio.sleep(t_term)
        log.add('-', 'terminate')
        if cause == 'shutdown':
            try:
                await circ.shutdown()
            except Exception as err:
                res['shutdown_exc'] = err
        elif cause == 'abort':
            circ.abort(RuntimeError('abort() by harness'))
        elif cause == 'cancel':
            # the documented way to stop run_forever(): cancel its task
            res['simtask'].cancel()
        elif cause in ('ctrl-shutdown', 'ctrl-abort'):
            try:
                circ.findblock('_ctrl').event(cause[5:], source='harness')
            except Exception:
                pass
        elif cblock_ctrl:
            # one external event; the CBlock 'trig' sends the control event while the simulator is
            # evaluating, and (with the calc_output fault) another block fails in the same step
            try:
                blocks['pb'].event('x', value='boom')
            except Exception:
                pass
            await asyncio.sleep(10000)
        elif cause == 'sigterm':
            signal.raise_signal(signal.SIGTERM)
            await asyncio.sleep(10000)
        elif cause == 'support-raises':
            raise KeyError('supporting task failed')
        elif cause == 'support-returns':
            return
        else:
            await asyncio.sleep(10000)

    d2 = env.real('second_delay', 0, 2) if second else None

    async def second_termination():
        # a further termination request while the clean-up is under way (pa.stop_async takes ds seconds):
        # it must neither interrupt the clean-up nor repeat it
        await asyncio.sleep(t_term + d2)
        log.add('-', 'second-termination')
        try:
            if second == 'abort':
                circ.abort(RuntimeError('second abort() by harness'))
            elif second == 'shutdown':
                await circ.shutdown()
            elif second == 'sigterm':
                signal.raise_signal(signal.SIGTERM)
            elif second == 'ctrl-shutdown':
                circ.findblock('_ctrl').event('shutdown', source='harness-2')
        except Exception as err:
            res['second_exc'] = err

    async def main():
        loop = asyncio.get_running_loop()
        log.clock = loop.time
        if second == 'ctrl-shutdown':
            edzed.Event('_ctrl', 'shutdown')
        if cause in ('ctrl-shutdown', 'ctrl-abort'):
            # make sure the control block exists
            edzed.Event('_ctrl', 'shutdown')
        extra = [asyncio.create_task(traffic())]
        if second:
            extra.append(asyncio.create_task(second_termination(), name='harness: second'))
        if timed_fault:
            extra.append(asyncio.create_task(fault_task()))
        if use_run:
            try:
                await edzed.run(terminator())
                res['run_exc'] = None
            except BaseException as err:
                res['run_exc'] = err
        else:
            simtask = res['simtask'] = asyncio.create_task(circ.run_forever(), name='harness: simtask')
            term = None
            if cause != 'none' or fault is None:
                term = asyncio.create_task(terminator())
            try:
                await simtask
            except BaseException as err:
                res['sim_exc'] = err
            if term is not None:
                term.cancel()
        res['t_end'] = loop.time()
        # everything observed at the very moment run() / the simulation task has finished
        res['n_end'] = len(log.ev)
        res['calls_end'] = (list(oa_calls), list(of_calls), list(oas_calls))
        for t in extra:
            t.cancel()
        await asyncio.sleep(0)
        res['leftover'] = [t.get_name() for t in asyncio.all_tasks()
                           if t is not asyncio.current_task() and not t.done()
                           and not t.get_name().startswith('harness')]
        res['timers'] = live_block_timers(loop, circ)
        # the circuit can be neither restarted nor modified
        frozen = []
        try:
            await circ.run_forever()
            frozen.append('run_forever')
        except edzed.EdzedInvalidState:
            pass
        for what, fn in (('addblock', lambda: edzed.Input('late', initdef=0)),
                         ('connect', lambda: blocks['fb'].connect('pb')),
                         ('set_persistent_data', lambda: circ.set_persistent_data({}))):
            try:
                fn()
                frozen.append(what)
            except edzed.EdzedInvalidState:
                pass
        res['frozen_violations'] = frozen
        await asyncio.sleep(100.0)
        res['late_events'] = len(log.ev)
    n_before = None
    saved = signal.getsignal(signal.SIGTERM)
    # every block - the implicitly created ones too (_ctrl, automatic Repeat, '_not_' inverters) - ends its start() and
    # stop() chain in the hooks of the base class: counted there
    base = {}
    from edzed import block as _block
    o_start, o_stop = _block.Block.start, _block.Block.stop

    def b_start(self_):
        o_start(self_)
        base.setdefault(self_.name, [0, 0])[0] += 1

    def b_stop(self_):
        base.setdefault(self_.name, [0, 0])[1] += 1
        o_stop(self_)
    _block.Block.start, _block.Block.stop = b_start, b_stop
    try:
        if cblock_ctrl:
            # both evaluation orders of the two CBlocks fed by 'pb' (solver-enumerated set order)
            from harness.simdrive import ChoiceSet
            from edzed import simulator
            ChoiceSet.budget[0] = 6
            simulator.set = ChoiceSet
        vloop.run(main())
    finally:
        _block.Block.start, _block.Block.stop = o_start, o_stop
        if cblock_ctrl:
            del simulator.set
        signal.signal(signal.SIGTERM, saved)
    # ---- checks ---------------------------------------------------------------------------------
    if cause == 'none' and fault in (None, ('pb', 'restore'), ('pa', 'init_async'), ('pa', 'stop'), ('pb', 'stop'),
                                     ('pa', 'stop_async')):
        raise AssertionError("scenario without an end")       # not generated by shards()
    names = list(blocks) + [b.name for b in circ.getblocks() if b.name not in blocks]
    started = [n for n in names if log.count(n, 'start-returned') == 1] + \
              [n for n in names if n not in blocks]          # implicit blocks are not instrumented
    env.obs('life', fault, cause, [e[:2] for e in log.ev if e[1] in ('stop', 'terminate', 'fault-fired')][:12])
    if fault and fault[1] == 'start':
        env.note('start-failed')
    for n in blocks:
        sr, sp = log.count(n, 'start-returned'), log.count(n, 'stop')
        if sr:
            env.check('stopped-exactly-once', sp == 1, info=lambda: (n, sr, sp, fault, cause, log.ev))
        else:
            env.check('not-started-not-stopped', sp == 0, info=lambda: (n, sr, sp, fault, cause))
    for n in names:
        if n in blocks:
            continue
        sr, sp = base.get(n, [0, 0])
        env.note('implicit-block-accounted')
        env.check('stopped-exactly-once' if sr else 'not-started-not-stopped', sp == (1 if sr else 0) and sr <= 1,
                  info=lambda: ('implicit block', n, sr, sp, fault, cause))
    # blocks with asynchronous clean-up are stopped (and awaited) before the remaining blocks
    async_blocks = [n for n in ('pa', 'rep', 'oa', 'oas', 'mt') if log.count(n, 'stop')]
    sync_blocks = [n for n in ('pb', 'pa2', 'tm', 'of', 'fb', 'trig') if log.count(n, 'stop')]
    if async_blocks and sync_blocks:
        last_async = max(log.index(n, 'stop') for n in async_blocks)
        first_sync = min(log.index(n, 'stop') for n in sync_blocks)
        env.check('async-stopped-first', last_async < first_sync, info=lambda: log.ev)
        ends = [i for i, e in enumerate(log.ev) if e[0] == 'pa' and e[1] in ('stop_async-end', 'stop_async-cancelled')]
        if ends:
            env.check('async-awaited-first', ends[0] < first_sync, info=lambda: log.ev)
    # stop_async awaited no longer than stop_timeout
    b = [e for e in log.ev if e[:2] == ('pa', 'stop_async-begin')]
    if b:
        fin = [e for e in log.ev if e[0] == 'pa' and e[1] in ('stop_async-end', 'stop_async-cancelled')]
        if fault == ('pa', 'stop_async'):
            pass
        elif fin:
            # the clean-up wait is bounded by the LARGEST stop_timeout of the blocks being stopped (oa: 3 s)
            bound = st if bool(st >= 3.0) else 3.0
            env.check('stop-async-bounded', fin[0][2] - b[0][2] <= bound, info=lambda: (b, fin, st))
            env.note('stop-async-completed' if fin[0][1] == 'stop_async-end' else 'stop-async-timed-out')
    else:
        # a stopped block with an asynchronous clean-up had its stop_async() started
        env.check('stop-async-bounded', log.count('pa', 'stop') == 0, info=lambda: log.ev)
    env.check('no-leftover-tasks', not res['leftover'], info=lambda: res['leftover'])
    env.check('no-live-timers', not res['timers'], info=lambda: res['timers'])
    env.check('nothing-after-end', res['late_events'] == len(log.ev) == res['n_end']
              and res['calls_end'] == (oa_calls, of_calls, oas_calls),
              info=lambda: (log.ev[res['n_end']:], res['calls_end'], (oa_calls, of_calls, oas_calls)))
    if not use_run:
        env.check('run-forever-raises', 'sim_exc' in res, info=lambda: res)
    # stop_data was delivered as the last action of every started output block
    if log.count('oa', 'start-returned'):
        env.check('stop-data-last', bool(oa_calls) and oa_calls[-1] == 'OA-STOP', info=lambda: oa_calls)
    if log.count('of', 'start-returned'):
        env.check('stop-data-last', bool(of_calls) and of_calls[-1] == 'OF-STOP', info=lambda: of_calls)
    if log.count('oas', 'start-returned'):
        env.check('stop-data-last', bool(oas_calls) and oas_calls[-1] == 'OAS-STOP', info=lambda: ('oas (start mode)', oas_calls))
    env.check('frozen', not res['frozen_violations'], info=lambda: res['frozen_violations'])
    # region bookkeeping
    term = [e for e in log.ev if e[1] == 'terminate']
    ff = [e for e in log.ev if e[1] == 'fault-fired']
    if term:
        if env.holds(term[0][2] < 5.0):
            env.note('term-before-init-done')
        elif env.holds(term[0][2] > 5.0):
            env.note('term-while-running')
        if ff:
            env.note('fault-before-termination' if log.ev.index(ff[0]) < log.ev.index(term[0]) else 'termination-before-fault')
    elif ff:
        env.note('fault-before-termination')
    sec = [e for e in log.ev if e[1] == 'second-termination']
    if sec and b and env.holds(And_(sec[0][2] > b[0][2], sec[0][2] < b[0][2] + ds)):
        env.note('second-termination-during-clean-up')


def scen_cleanup_events(env, cause):
    """events sent DURING the clean-up (stop_data of an output block -> on_success event) to an FSM that may or may
    not have been stopped already (the order in which the blocks are stopped is a set order: both are explored).
    Nothing may outlive the simulation: no timer armed by such an event, no timed event afterwards."""
    from harness.simdrive import OrderedSet
    from edzed import simulator
    circ = fresh_circuit()
    log = []
    first = env.pick(['tm2', 'of', 'ie'], 'stopped_first')

    class P(edzed.SBlock):
        def init_regular(self):
            self.set_output(0)

        def _event(self, etype, data):
            log.append((asyncio.get_running_loop().time(), etype, data.get('source'), data.get('value')))
    P('p')
    tm2 = edzed.Timer('tm2', t_on=5.0, on_output=edzed.Event('p', 'tm2'))
    ie = edzed.InputExp('ie', duration=7.0, expired='EXPIRED', on_output=edzed.Event('p', 'ie'))
    of_calls = []
    edzed.OutputFunc('of', func=of_calls.append, stop_data={'value': 'OF-STOP'},
                     on_success=[edzed.Event('tm2', 'start'), edzed.Event('ie', 'put', efilter=edzed.DataEdit.add(value='late'))],
                     on_error=None)
    t_term = env.real('t_term', 0.5, 3.0)
    res = {}

    async def main():
        loop = asyncio.get_running_loop()
        task = asyncio.create_task(circ.run_forever(), name='harness: simtask')
        await circ.wait_init()
        await asyncio.sleep(t_term)
        if cause == 'shutdown':
            await circ.shutdown()
        else:
            circ.abort(RuntimeError('abort by harness'))
            try:
                await task
            except Exception:
                pass
        res['t_end'] = loop.time()
        res['n_end'] = len(log)
        res['timers'] = live_block_timers(loop, circ)
        res['leftover'] = [t.get_name() for t in asyncio.all_tasks()
                           if t is not asyncio.current_task() and not t.done() and not t.get_name().startswith('harness')]
        res['state_end'] = (tm2.state, ie.state)
        await asyncio.sleep(100.0)
    OrderedSet.front = [first]
    simulator.set = OrderedSet
    try:
        vloop.run(main())
    finally:
        del simulator.set
        OrderedSet.front = []
    env.check('stop-data-last', of_calls == ['OF-STOP'], info=lambda: of_calls)
    env.check('no-live-timers', not res['timers'], info=lambda: (first, res['timers']))
    env.check('no-leftover-tasks', not res['leftover'], info=lambda: res['leftover'])
    env.check('nothing-after-end', len(log) == res['n_end'] and (tm2.state, ie.state) == res['state_end'],
              info=lambda: (first, log[res['n_end']:], res['state_end'], (tm2.state, ie.state)))
    env.note('fsm-stopped-before-the-output-block' if first in ('tm2', 'ie') else 'output-block-stopped-first')


def ends_by_itself(fault):
    return fault in (('pa', 'start'), ('pb', 'start'), ('oa', 'start'), ('pa', 'init_regular'), ('pb', 'init_from_value'),
                     ('fb', 'calc_output'), ('pb', 'event'), ('mt', 'main_task'))


def scen_wait_init_waiter(env, failure):
    """somebody waits in wait_init() while the start-up fails (or is stopped) before the initialisation is complete:
    when the simulation task has finished, NO task created by edzed is pending - the helper task wait_init() uses
    to wait for the end of the initialisation included"""
    circ = fresh_circuit()
    d = env.real('init_duration', 0, 10, lo_open=True)
    t_stop = env.real('t_stop', 0, 10)

    class Slow(edzed.AddonAsync, edzed.SBlock):
        async def init_async(self):
            await asyncio.sleep(d)
            if failure != 'never-initialised':
                self.set_output(1)
    Slow('slow', init_timeout=20.0)
    if failure == 'calc':
        edzed.FuncBlock('fb', func=lambda x: 1 // 0).connect('slow')
    res = {}

    async def waiter():
        try:
            await circ.wait_init()
            res['wait_init'] = 'returned'
        except edzed.EdzedInvalidState as err:
            res['wait_init'] = err

    async def main():
        task = asyncio.create_task(circ.run_forever())
        w = asyncio.create_task(waiter(), name='harness waiter')
        if failure == 'shutdown':
            await asyncio.sleep(t_stop)
            if not task.done():
                try:
                    await circ.shutdown()
                except BaseException as err:
                    res['shutdown'] = err
        try:
            await task
        except BaseException as err:
            res['end'] = err
        for _ in range(5):          # a cancelled task needs a loop iteration to finish; wait_init()'s caller resumes
            await asyncio.sleep(0)  # two iterations after the end of the simulation task
        res['waiter_done'] = w.done()
        res['leftover'] = [t.get_name() + ' ' + repr(t.get_coro()) for t in asyncio.all_tasks()
                           if t is not asyncio.current_task() and not t.done()]
        for t in asyncio.all_tasks():
            if t is not asyncio.current_task():
                t.cancel()
    vloop.run(main())
    env.note('wait-init-waiter')
    stopped_early = failure != 'shutdown' or bool(t_stop < d)        # forks
    if stopped_early:
        env.check('wait-init-raises', isinstance(res.get('wait_init'), edzed.EdzedInvalidState), info=lambda: res)
    env.check('no-leftover-tasks', res['waiter_done'] and not res['leftover'], info=lambda: res)


def shards(tier):
    out = [{'name': f'events during clean-up, cause={c}', 'scenario': 'scen_cleanup_events', 'params': {'cause': c}}
           for c in ('shutdown', 'abort')]
    for f in ('never-initialised', 'calc', 'shutdown'):
        out.append({'name': f'a task waits in wait_init(): {f}', 'scenario': 'scen_wait_init_waiter', 'params': {'failure': f}})
    for fi, fault in enumerate(FAULTS):
        for cause in CAUSES:
            if cause == 'none' and not ends_by_itself(fault):
                continue
            if cause.startswith('cblock-') and fault not in (None, ('fb', 'calc_output'), ('pa', 'stop_async'), ('pb', 'stop')):
                continue
            if tier == 'quick' and fault is not None and cause not in ('shutdown', 'sigterm', 'none', 'ctrl-abort',
                                                                         'cblock-shutdown', 'cblock-abort'):
                continue
            for oi in (0, 1):
                if tier == 'quick' and oi == 1 and (fault is not None and cause != 'shutdown'):
                    continue
                out.append({'name': f'fault={fault} cause={cause} order={oi}', 'scenario': 'scen_life',
                            'params': {'fault_idx': fi, 'cause': cause, 'order_idx': oi}})
    for cause, second in (('shutdown', 'abort'), ('sigterm', 'sigterm'), ('abort', 'shutdown'), ('shutdown', 'ctrl-shutdown'),
                          ('sigterm', 'abort'), ('cancel', 'shutdown')):
        if tier == 'quick' and (cause, second) not in (('shutdown', 'abort'), ('sigterm', 'sigterm')):
            continue
        out.append({'name': f'second termination during clean-up: {cause} then {second}', 'scenario': 'scen_life',
                    'params': {'fault_idx': 0, 'cause': cause, 'order_idx': 0, 'second': second}, 'cost': 5})
    for cause in (('shutdown',) if tier == 'quick' else ('shutdown', 'sigterm', 'abort')):
        for fi in (0, FAULTS.index(('pa', 'stop_async')), FAULTS.index(('pa', 'stop'))):
            out.append({'name': f'symbolic stop_async/stop_timeout fault={FAULTS[fi]} cause={cause}', 'scenario': 'scen_life',
                        'params': {'fault_idx': fi, 'cause': cause, 'order_idx': 0, 'sym_stop': True}, 'cost': 20})
    return out
