"""
C17 - an Input never outputs a value that its validators reject.

Real code executed symbolically: _Validation.__init__/_validate, Input.__init__/_event_put/
init_from_value/_restore_state, InputExp.__init__/cond_put/calc_output, FSM._ctx_event (for
InputExp), SBlock.event, AddonPersistence.init_from_persistent_data.

Validators are symbolic: check = (v >= c) with symbolic c; schema = v+k / raises when v < c2;
allowed = a concrete small set (membership needs hashing, so on those shards the put values are
solver-enumerated from 0..5).  put values are unbounded symbolic integers otherwise.
"""
from symx.core import And_, Or_, Not_, Iff_, If_, eq_, truthy, is_sym
from symx.edz import sync_circuit, start_sync
import edzed
from edzed import UNDEF

PROPERTY = 'C17'
LEVEL = 'model_checking'
BOUNDS = {'quick': {'puts': 3}, 'thorough': {'puts': 5}}
OUTSIDE = ["allowed-sets with symbolic members (hash based membership): values enumerated from 0..5 instead",
           "schema functions other than affine / conditionally raising ones", "put sequences longer than the bound",
           "InputExp with a finite duration (timers are C04's subject; here duration = INF_TIME)"]
STUBS = ["Circuit.sblock_queue = list-backed stub; start sequence = real resolver/finalize/init methods"]
ASSUMPTIONS = ["validators are pure functions"]
EXPECT_LABELS = {'all': ['put-ret', 'put-output', 'ctor-initdef', 'restore', 'restore-exp', 'exp-put', 'exp-ctor']}
EXPECT_NOTES = {'all': ['accepted', 'rejected', 'restored-value-accepted', 'restored-value-refused']}
FLOORS = {'quick': {'paths': 300, 'checks': 1000}, 'thorough': {'paths': 3000, 'checks': 10000}}

ALLOWED = (0, 2, 3, 5)


class Validators:
    """Symbolic validator definitions + their reference semantics."""

    def __init__(self, env, has_allowed, has_check, schema_kind):
        self.kw = {}
        self.has_allowed = has_allowed
        self.has_check = has_check
        self.schema_kind = schema_kind
        self.calls = []
        if has_allowed:
            self.kw['allowed'] = list(ALLOWED)
        if has_check:
            self.c = env.int('check_min')
            # 'check returns a true value': a bool (symbolic), or any truthy / falsy object
            style = env.pick(['bool', 'int', 'object'], 'check_result_type')

            def check(v):
                self.calls.append('check')
                ok = v >= self.c
                if style == 'bool':
                    return ok
                if style == 'int':
                    return 7 if ok else 0
                return [v] if ok else None
            self.kw['check'] = check
        if schema_kind == 'add':
            self.k = env.int('schema_add')
            self.kw['schema'] = lambda v: (self.calls.append('schema'), v + self.k)[1]
        elif schema_kind == 'raise':
            self.c2 = env.int('schema_min')
            exc = env.pick([TypeError, ValueError, KeyError, ZeroDivisionError], 'schema_exception')

            def schema(v):
                self.calls.append('schema')
                if v < self.c2:
                    raise exc("schema says no")       # 'schema does not raise': any exception type
                return v * 2
            self.kw['schema'] = schema

    def accepted(self, v):
        """Reference: (accepted?, resulting output) without forking."""
        conds = []
        if self.has_allowed:
            conds.append(Or_(*[eq_(v, a) for a in ALLOWED]))
        if self.has_check:
            conds.append(v >= self.c)
        out = v
        if self.schema_kind == 'add':
            out = v + self.k
        elif self.schema_kind == 'raise':
            conds.append(Not_(v < self.c2))
            out = v * 2
        return And_(*conds), out


def value(env, name, enumerate_small):
    if enumerate_small:
        return env.choose(7, name) - 0      # 0..6 (6 is not allowed)
    return env.int(name)


def scen_input(env, has_allowed, has_check, schema_kind, n):
    circ = sync_circuit()
    val = Validators(env, has_allowed, has_check, schema_kind)
    init_kind = env.pick(['none', 'good-or-bad'], 'initdef_kind')
    kw = dict(val.kw)
    i0 = None
    if init_kind != 'none':
        i0 = value(env, 'initdef', has_allowed)
        kw['initdef'] = i0
        acc0, out0 = val.accepted(i0)
    try:
        inp = edzed.Input('inp', **kw)
        created = True
    except ValueError:
        created = False
    if i0 is not None:
        env.check('ctor-initdef', Iff_(created, acc0))
    else:
        env.check('ctor-noinitdef', created)
    if not created:
        return
    start_sync(circ)
    if i0 is not None:
        env.check('init-output', eq_(inp.output, out0))
    else:
        env.check('init-undef', inp.output is UNDEF)
    cur = inp.output
    for k in range(n):
        v = value(env, f'v{k}', has_allowed)
        del val.calls[:]
        r = inp.event('put', value=v, junk=k)
        acc, out = val.accepted(v)
        env.check('put-ret', And_(Iff_(r is True, acc), Iff_(r is False, Not_(acc))),
                  info=lambda: (v, r))
        if r:
            env.note('accepted')
            env.check('put-output', eq_(inp.output, out), info=lambda: (v, inp.output, out))
            cur = inp.output
        else:
            env.note('rejected')
            same = inp.output is cur if not is_sym(cur) and cur is UNDEF else eq_(inp.output, cur)
            env.check('put-unchanged', same)
            env.check('put-state-unchanged',
                      True if cur is UNDEF else eq_(inp.get_state(), cur))
        env.check('put-noerror', circ.error is None)


def scen_restore(env, has_allowed, has_check, schema_kind):
    """a restored persistent value passes through the same validation"""
    circ = sync_circuit()
    val = Validators(env, has_allowed, has_check, schema_kind)
    pv = value(env, 'persistent', has_allowed)
    kw = dict(val.kw)
    with_initdef = env.choose(2, 'with_initdef')
    if with_initdef:
        i0 = value(env, 'initdef', has_allowed)
        acc0, out0 = val.accepted(i0)
        env.assume(acc0)
        kw['initdef'] = i0
    inp = edzed.Input('inp', persistent=True, **kw)
    circ.persistent_dict = {inp.key: pv, 'edzed-stop-time': 1.0}
    start_sync(circ)
    acc, out = val.accepted(pv)
    if with_initdef:
        exp = If_(acc, out, out0) if is_sym(acc) else (out if acc else out0)
        env.check('restore', eq_(inp.output, exp), info=lambda: (pv, inp.output))
    else:
        if inp.output is UNDEF:
            env.check('restore', Not_(acc))
        else:
            env.check('restore', And_(acc, eq_(inp.output, out)))


def scen_restore_exp(env, has_allowed, has_check, schema_kind):
    """the value part of an InputExp restored from the persistent storage passes through the same validation:
    accepted -> the block is 'valid' with schema(value); refused -> the saved state is not used (normal initialisation)"""
    circ = sync_circuit()
    val = Validators(env, has_allowed, has_check, schema_kind)
    kw = dict(val.kw)
    ev = value(env, 'expired', has_allowed)
    acc_e, out_e = val.accepted(ev)
    env.assume(acc_e)
    init_given = env.choose(2, 'init_given')
    if init_given:
        i0 = value(env, 'initdef', has_allowed)
        acc0, out0 = val.accepted(i0)
        env.assume(acc0)
        kw['initdef'] = i0
    ie = edzed.InputExp('ie', duration=edzed.INF_TIME, expired=ev, persistent=True, **kw)
    saved_state = env.pick(['valid', 'expired'], 'saved_state')
    pv = value(env, 'persistent', has_allowed)
    circ.persistent_dict = {ie.key: ('valid', None, {'input': pv}) if saved_state == 'valid' else ('expired', None, {}),
                            'edzed-stop-time': 1.0}
    start_sync(circ)
    if saved_state == 'expired':
        env.check('restore-exp', And_(ie.state == 'expired', eq_(ie.output, out_e)), info=lambda: (ie.state, ie.output))
        return
    acc, out = val.accepted(pv)
    if bool(acc):           # forks
        env.note('restored-value-accepted')
        env.check('restore-exp', And_(ie.state == 'valid', eq_(ie.output, out)), info=lambda: (pv, ie.state, ie.output))
    else:
        env.note('restored-value-refused')
        if init_given:
            env.check('restore-exp', And_(ie.state == 'valid', eq_(ie.output, out0)), info=lambda: (pv, ie.state, ie.output))
        else:
            env.check('restore-exp', And_(ie.state == 'expired', eq_(ie.output, out_e)), info=lambda: (pv, ie.state, ie.output))


def scen_unhashable(env, kind):
    """'a value is accepted iff it is among allowed': a value that cannot even be hashed (a list, a dict) is simply not
    among them - the put returns False and nothing else happens (docs: allowed is equivalent to
    check=lambda value: value in ALLOWED)"""
    circ = sync_circuit()
    if kind == 'input':
        blk = edzed.Input('i', allowed=list(ALLOWED), initdef=2)
    else:
        blk = edzed.InputExp('i', allowed=list(ALLOWED), initdef=2, expired=0, duration=edzed.INF_TIME)
    start_sync(circ)
    v = env.pick(ALLOWED + (1,), 'member')
    bad = env.pick(['list', 'dict', 'set', 'tuple', 'list-of-list'], 'shape')
    value = {'list': [v], 'dict': {v: v}, 'set': {v}, 'tuple': (v,), 'list-of-list': [[v]]}[bad]
    before = (blk.output, blk.get_state())
    try:
        r = blk.event('put', value=value)
    except Exception as err:
        r = err
    env.note('unhashable-put' if bad != 'tuple' else 'hashable-non-member-put')
    env.check('put-ret', r is False, info=lambda: (kind, value, r))
    env.check('put-unchanged', (blk.output, blk.get_state()) == before and circ.error is None,
              info=lambda: (blk.output, blk.get_state(), before, circ.error))
    # the block still works
    r2 = blk.event('put', value=3)
    env.check('put-output', r2 is True and blk.output == 3 and circ.error is None, info=lambda: (r2, blk.output, circ.error))
    # the same value as initdef: refused at creation
    fresh = sync_circuit()
    try:
        if kind == 'input':
            edzed.Input('j', allowed=list(ALLOWED), initdef=value)
        else:
            edzed.InputExp('j', allowed=list(ALLOWED), initdef=value, expired=0, duration=edzed.INF_TIME)
        created = True
    except ValueError:
        created = False
    except Exception as err:
        created = err
    env.check('ctor-initdef', created is False, info=lambda: (value, created))


def scen_inputexp_default_expired(env, validator):
    """InputExp's expired value defaults to None; it is validated like any other: validators that reject None make
    the constructor refuse the block, whether None is passed explicitly or by default"""
    circ = sync_circuit()
    c = env.int('check_min')
    kw = {}
    if validator == 'allowed':
        kw['allowed'] = list(ALLOWED)
    elif validator == 'check':
        kw['check'] = lambda v: v is not None and v >= c
    elif validator == 'schema':
        def schema(v):
            if v is None:
                raise ValueError("a number is required")
            return v + 1
        kw['schema'] = schema
    elif validator == 'allowed-with-none':
        kw['allowed'] = [None, 0, 2]
    if env.choose(2, 'explicit_none'):
        kw['expired'] = None
    init_given = env.choose(2, 'init_given')
    if init_given:
        kw['initdef'] = 2
        env.assume(c <= 2)
    try:
        ie = edzed.InputExp('ie', duration=edzed.INF_TIME, **kw)
        created = True
    except (ValueError, TypeError):
        created = False
    rejects_none = validator in ('allowed', 'check', 'schema')
    env.note('expired-none-refused' if rejects_none else 'expired-none-accepted')
    env.check('exp-ctor', created == (not rejects_none), info=lambda: (validator, kw.keys(), created))
    if created:
        start_sync(circ)
        if not init_given:
            env.check('exp-init', ie.state == 'expired' and ie.output is None, info=lambda: (ie.state, ie.output))


def scen_inputexp(env, has_allowed, has_check, schema_kind, n):
    circ = sync_circuit()
    val = Validators(env, has_allowed, has_check, schema_kind)
    kw = dict(val.kw)
    ev = value(env, 'expired', has_allowed)
    acc_e, out_e = val.accepted(ev)
    init_given = env.choose(2, 'init_given')
    if init_given:
        i0 = value(env, 'initdef', has_allowed)
        kw['initdef'] = i0
        acc0, out0 = val.accepted(i0)
    try:
        ie = edzed.InputExp('ie', duration=edzed.INF_TIME, expired=ev, **kw)
        created = True
    except ValueError:
        created = False
    exp_created = And_(acc_e, acc0) if init_given else acc_e
    env.check('exp-ctor', Iff_(created, exp_created))
    if not created:
        return
    start_sync(circ)
    # InputExp stores the *validated* values (schema applied) for both expired and initdef
    if init_given:
        env.check('exp-init', And_(ie.state == 'valid', eq_(ie.output, out0)), info=lambda: ie.output)
    else:
        env.check('exp-init', And_(ie.state == 'expired', eq_(ie.output, out_e)))
    cur = ie.output
    for k in range(n):
        v = value(env, f'v{k}', has_allowed)
        r = ie.event('put', value=v)
        acc, out = val.accepted(v)
        env.check('exp-put', And_(Iff_(r is True, acc), Iff_(r is False, Not_(acc))))
        if r:
            env.note('accepted')
            env.check('exp-output', And_(eq_(ie.output, out), ie.state == 'valid'))
            cur = ie.output
        else:
            env.note('rejected')
            env.check('exp-unchanged', eq_(ie.output, cur))
        env.check('exp-noerror', circ.error is None)


def shards(tier):
    n = BOUNDS[tier]['puts']
    out = []
    for a in (False, True):
        for c in (False, True):
            for s in ('none', 'add', 'raise'):
                p = {'has_allowed': a, 'has_check': c, 'schema_kind': s}
                tag = f"allowed={int(a)} check={int(c)} schema={s}"
                nn = min(n, 2 if tier == 'quick' else 3) if a else n
                out.append({'name': f'input {tag} n={nn}', 'scenario': 'scen_input',
                            'params': {**p, 'n': nn}, 'cost': 10 if a else 3})
                out.append({'name': f'restore {tag}', 'scenario': 'scen_restore', 'params': p})
                out.append({'name': f'restore inputexp {tag}', 'scenario': 'scen_restore_exp', 'params': p})
                out.append({'name': f'inputexp {tag}', 'scenario': 'scen_inputexp',
                            'params': {**p, 'n': min(nn, 2 if a else 3)}, 'cost': 5})
    for kind in ('input', 'inputexp'):
        out.append({'name': f'unhashable value vs allowed: {kind}', 'scenario': 'scen_unhashable', 'params': {'kind': kind}})
    for v in ('allowed', 'check', 'schema', 'allowed-with-none', 'none'):
        out.append({'name': f'inputexp default expired value, validator={v}', 'scenario': 'scen_inputexp_default_expired',
                    'params': {'validator': v}})
    return out
