"""
C12 - OutputAsync honours its mode for every arrival pattern.

Real code executed symbolically (virtual-time loop, symbolic clock): OutputAsync.__init__/
_event_put/_output_coro/_output_coro_wrapper/_ctrl_cancel/_ctrl_wait/_ctrl_start/start/stop/
stop_async, utils.shield_cancel, AddonAsync._task_monitor, Circuit._stop_sblocks/_run_tasks,
run_forever/shutdown; asyncio Queue/Task/shield/gather/sleep run for real.

Arrival gaps, run durations, guard_time and the stop instant are symbolic reals (simultaneous
arrivals, arrivals during a run / during guard time / exactly at a completion are path regions);
which runs fail, the mode, stop_data are solver-enumerated.  The oracle states the property's
clauses as formulas over the time-stamped trace (exactly one result per put with the original
data, FIFO / one-at-a-time / cancel-only-for-newer / newest-completes, guard separation as a z3
inequality, output walk, stop_data last).
"""
import asyncio
from symx.core import And_, Or_, Not_, Iff_, eq_, is_sym
from symx.edz import fresh_circuit, Probe
from symx import vloop
import edzed

PROPERTY = 'C12'
LEVEL = 'model_checking'
BOUNDS = {'quick': {'puts': 2, 'modes': ['wait', 'cancel', 'start'], 'guard_time': [None, 'symbolic 0<g<=10'],
                    'durations': 'symbolic 0<d<=100', 'gaps': 'symbolic 0<=gap<=100', 'stop_timeout': 1000},
          'thorough': {'puts': 3, 'note': '3 puts without stop_data / late ties (guard_time only in wait mode); 2 puts for the stop_data, late-tie and guarded cancel/start variants', 'modes': ['wait', 'cancel', 'start'], 'guard_time': [None, 'symbolic 0<g<=10'],
                       'durations': 'symbolic 0<d<=100', 'gaps': 'symbolic 0<=gap<=100', 'stop_timeout': 1000}}
OUTSIDE = ["more puts than the bound",
           "same-instant orders other than heapq's", "InExecutor / real threads"]
STUBS = ["virtual-time event loop (symx/vloop.py) with a symbolic clock",
         "the user coroutine = sleep(symbolic duration) then return / raise (solver's choice)"]
ASSUMPTIONS = ["constructor precondition guard_time <= stop_timeout (documented ValueError otherwise)"]
EXPECT_LABELS = {'all': ['one-result-per-put', 'result-data', 'wait-fifo', 'one-at-a-time', 'guard-separation',
                         'cancel-only-newer', 'newest-completes', 'start-at-once', 'output-walk', 'output-idle',
                         'stop-data-last', 'no-leftover', 'output-timeline', 'result-time']}
EXPECT_NOTES = {'all': ['run-cancelled', 'put-discarded', 'arrival-during-guard', 'simultaneous-arrivals', 'run-failed',
                        'put-between-stop-request-and-stop', 'put-after-stop-skipped']}
FLOORS = {'quick': {'paths': 200, 'checks': 2000}, 'thorough': {'paths': 2000, 'checks': 20000}}

STOP_VALUE = 'STOP'


def scen_oa(env, mode, with_guard, nput, stop_data, late=False, hop_put=False):
    """hop_put: the last put is not an external event but an (internal) event delivered 0..3 event-loop iterations
    AFTER the stop was requested - while the block is not stopped yet it is an accepted put like any other"""
    circ = fresh_circuit()
    loopref = []
    now = lambda: loopref[0].time()
    trace = []                     # unified chronological trace
    p = Probe('p', clock=now)
    outp = Probe('outp', clock=now)
    g = env.real('guard', 0, 10, lo_open=True) if with_guard else None
    gaps = [env.real(f'gap{i}', 0, 100) for i in range(nput)]
    durs = {i: env.real(f'dur{i}', 0, 100, lo_open=True) for i in range(nput)}
    durs[STOP_VALUE] = env.real('dur_stop', 0, 100, lo_open=True)
    fails = {i: bool(env.choose(2, f'fail{i}')) for i in range(nput)}
    fails[STOP_VALUE] = False
    stop_gap = env.real('stop_gap', 0, 300)
    oa_ref = []

    async def coro(value):
        trace.append(('start', now(), value, oa_ref[0].output))
        try:
            await asyncio.sleep(durs[value])
        except asyncio.CancelledError:
            trace.append(('cancelled', now(), value, None))
            raise
        if fails[value]:
            trace.append(('fail', now(), value, None))
            raise RuntimeError(f"run {value} failed")
        trace.append(('end', now(), value, None))
        return ('result', value)

    kw = {}
    if stop_data:
        kw['stop_data'] = {'value': STOP_VALUE, 'extra': 'sd'}
    mode_arg = mode if env.choose(2, 'mode_alias') else mode[0]      # 'wait' / 'w' ...
    oa = edzed.OutputAsync(
        'oa', coro=coro, mode=mode_arg, guard_time=g, stop_timeout=1000.0,
        on_success=edzed.Event(p, 'ok'), on_cancel=edzed.Event(p, 'cancel'), on_error=edzed.Event(p, 'err'),
        on_output=edzed.Event(outp, 'out'), **kw)
    oa_ref.append(oa)
    arrivals = {}
    state = {}

    async def main():
        loop = asyncio.get_running_loop()
        loopref.append(loop)
        asyncio.create_task(circ.run_forever())
        await circ.wait_init()
        ev = edzed.ExtEvent(oa, 'put', source='_ext_src')
        orig_stop = oa.stop

        def stop_seen():
            state['oa_stopped'] = True
            orig_stop()
        oa.stop = stop_seen
        for i in range(nput - 1 if hop_put else nput):
            if late:
                # let the block schedule its own timers first: at an exact tie (arrival = completion of a
                # run / end of the guard time) the block's timer then runs BEFORE the arrival
                for _ in range(5):
                    await asyncio.sleep(0)
            await asyncio.sleep(gaps[i])
            arrivals[i] = loop.time()
            trace.append(('arrive', loop.time(), i, None))
            ev.send(i, extra=('x', i))
        await asyncio.sleep(stop_gap)
        state['stop_at'] = loop.time()
        trace.append(('stop', loop.time(), None, None))
        if hop_put:
            h = env.choose(4, 'hops_after_stop_request')
            last = nput - 1

            def hop(rem):
                if rem > 0:
                    loop.call_soon(hop, rem - 1)
                    return
                if state.get('oa_stopped'):
                    state['skipped'] = True         # a put to a stopped block: nothing is claimed
                    return
                arrivals[last] = loop.time()
                trace.append(('arrive', loop.time(), last, None))
                try:
                    oa.event('put', value=last, extra=('x', last), source='_ext_src')
                except Exception as err:
                    state['hop_exc'] = err
            if h == 0:
                hop(0)
            else:
                loop.call_soon(hop, h - 1)
        await circ.shutdown()
        state['stopped_at'] = loop.time()
        state['leftover'] = [t.get_name() for t in asyncio.all_tasks() if t is not asyncio.current_task() and not t.done()]
        state['output_end'] = oa.output
        await asyncio.sleep(500.0)
        state['late'] = len(p.log)
    vloop.run(main())
    # ---- observed -------------------------------------------------------------------------
    if hop_put:
        if state.get('skipped'):
            env.note('put-after-stop-skipped')
            return
        env.note('put-between-stop-request-and-stop')
        env.check('noerror', state.get('hop_exc') is None, info=lambda: state.get('hop_exc'))
    results = {}
    for t, et, d in p.log:
        v = d['put']['value']
        results.setdefault(v, []).append((t, et, d))
    values = list(range(nput)) + ([STOP_VALUE] if stop_data else [])
    env.obs('oa', mode, [(k, v) for k, _, v, _ in trace if k != 'arrive'], [(et, d['put']['value']) for _, et, d in p.log])
    env.check('noerror', isinstance(circ.error, asyncio.CancelledError), info=lambda: circ.error)
    # (1) exactly one result per accepted put, carrying the original data
    env.check('one-result-per-put', all(len(results.get(v, [])) == 1 for v in values) and len(p.log) == len(values),
              info=lambda: p.log)
    for v in values:
        if len(results.get(v, [])) != 1:
            continue
        t, et, d = results[v][0]
        if v == STOP_VALUE:
            ok = d['put'] == {'value': STOP_VALUE, 'extra': 'sd'}
        else:
            ok = d['put'] == {'value': v, 'extra': ('x', v), 'source': '_ext_src'}
        ok = ok and d['trigger'] == {'ok': 'success', 'cancel': 'cancel', 'err': 'error'}[et]
        if et == 'ok':
            ok = ok and d['value'] == ('result', v)
        if et == 'err':
            ok = ok and isinstance(d['error'], RuntimeError)
        env.check('result-data', ok, info=lambda: (v, et, d))
    starts = [(t, v) for k, t, v, _ in trace if k == 'start']
    fin = {v: (k, t) for k, t, v, _ in trace if k in ('end', 'fail', 'cancelled')}
    started = [v for _, v in starts]
    env.check('started-once', len(set(started)) == len(started))
    # the run's own trace and the reported result agree
    for v in values:
        if len(results.get(v, [])) != 1:
            continue
        et = results[v][0][1]
        if v in fin:
            env.check('result-kind', {'end': 'ok', 'fail': 'err', 'cancelled': 'cancel'}[fin[v][0]] == et)
            if fin[v][0] == 'fail':
                env.note('run-failed')
            if fin[v][0] == 'cancelled':
                env.note('run-cancelled')
        else:
            env.note('put-discarded')
            env.check('discarded-reported-cancelled', et == 'cancel' and mode == 'cancel', info=lambda: (v, et))
    for i in range(1, nput):
        if arrivals[i] == arrivals[i - 1]:
            env.note('simultaneous-arrivals')
    gz = g if g is not None else 0
    if mode == 'wait':
        env.check('wait-fifo', started == values, info=lambda: started)
        env.check('wait-no-cancel', all(results[v][0][1] != 'cancel' for v in values if v in results))
    if mode in ('wait', 'cancel'):
        # one at a time, separated by at least guard_time (a z3 inequality over the time stamps)
        conds = []
        for (t1, v1), (t2, v2) in zip(starts, starts[1:]):
            if v1 not in fin:
                conds.append(False)
                continue
            conds.append(t2 >= fin[v1][1] + gz)
        env.check('one-at-a-time', And_(*conds) if conds else True, info=lambda: (starts, fin))
        env.check('guard-separation', And_(*conds) if conds else True)
        if g is not None:
            for i in range(nput):
                for v1, (k, tf) in fin.items():
                    a = arrivals[i]
                    if v1 != i and env.holds(And_(a > tf, a < tf + g)):
                        env.note('arrival-during-guard')
        # a run never starts before its put arrived
        env.check('causal', And_(*[t >= arrivals[v] for t, v in starts if v != STOP_VALUE]))
    if mode == 'cancel':
        # a run is cancelled only because a newer event arrived (or nothing is cancelled at all)
        for v, (k, tf) in fin.items():
            if k != 'cancelled':
                continue
            newer = [arrivals[j] for j in range(nput) if v != STOP_VALUE and j > v]
            if stop_data:
                newer.append(state['stop_at'])     # stop_data is the newest event of all
            env.check('cancel-only-newer', Or_(*[eq_(tf, a) for a in newer]) if newer else False,
                      info=lambda: (v, tf, newer))
        newest = STOP_VALUE if stop_data else nput - 1
        if len(results.get(newest, [])) == 1:
            env.check('newest-completes', results[newest][0][1] in ('ok', 'err') and newest in fin
                      and fin[newest][0] in ('end', 'fail'), info=lambda: (newest, results[newest]))
        env.check('cancel-newest-last', not starts or starts[-1][1] == newest, info=lambda: starts)
    if mode == 'start':
        env.check('start-at-once', len(starts) == len(values) and And_(
            *[eq_(t, arrivals[v]) for t, v in starts if v != STOP_VALUE]), info=lambda: (starts, arrivals))
        env.check('start-no-cancel', all(results[v][0][1] != 'cancel' for v in values if v in results))
    # output = number of active runs: a +-1 walk from 0, never negative, 0 when idle
    outs = [d['value'] for _, _, d in outp.log]
    walk_ok = bool(outs) and outs[0] == 0
    for a, b in zip(outs, outs[1:]):
        walk_ok = walk_ok and abs(a - b) == 1 and b >= 0
    if mode in ('wait', 'cancel'):
        walk_ok = walk_ok and all(o in (0, 1) for o in outs)
    # at the start of every run the output counts that run
    active = 0
    seen = {}
    for k, t, v, out in trace:
        if k == 'start':
            active += 1
            if g is None:
                walk_ok = walk_ok and out == active
            else:
                walk_ok = walk_ok and out >= 1
        elif k in ('end', 'fail', 'cancelled'):
            active -= 1
    env.check('output-walk', walk_ok, info=lambda: (outs, trace))
    # ... and it changes at the right instants: +1 when a run starts, -1 when it has finished AND its guard time is over
    ups = [t for t, _, d in outp.log if d['previous'] is not edzed.UNDEF and d['value'] == d['previous'] + 1]
    downs = [t for t, _, d in outp.log if d['previous'] is not edzed.UNDEF and d['value'] == d['previous'] - 1]
    fin_order = [t for k, t, v, _ in trace if k in ('end', 'fail', 'cancelled')]
    env.check('output-timeline', len(ups) == len(starts) and len(downs) == len(fin_order)
              and And_(*[eq_(u, t) for u, (t, _) in zip(ups, starts)])
              and And_(*[eq_(d, tf + gz) for d, tf in zip(downs, fin_order)]),
              info=lambda: (ups, starts, downs, fin_order, gz))
    # every result event is sent when its run ends (not after the guard time, not at the stop)
    for v in values:
        if len(results.get(v, [])) == 1 and v in fin:
            env.check('result-time', eq_(results[v][0][0], fin[v][1]), info=lambda: (v, results[v][0][0], fin[v][1]))
    env.check('output-idle', state['output_end'] == 0 and (not outs or outs[-1] == 0), info=lambda: outs)
    # stop: pending work completed, stop_data processed last, nothing left
    if stop_data:
        env.check('stop-data-last', bool(starts) and starts[-1][1] == STOP_VALUE and STOP_VALUE in fin
                  and fin[STOP_VALUE][0] == 'end' and starts[-1][0] >= state['stop_at']
                  # 'last': its run begins when every other run is over (in start mode too)
                  and And_(*[starts[-1][0] >= tf for v, (k, tf) in fin.items() if v != STOP_VALUE]),
                  info=lambda: (starts, fin))
    else:
        env.check('stop-data-last', all(v != STOP_VALUE for v in started))
    if mode != 'cancel':
        env.check('pending-work-completed', all(v in fin and fin[v][0] in ('end', 'fail') for v in values),
                  info=lambda: (values, fin))
    env.check('no-leftover', not state['leftover'] and state['late'] == len(p.log), info=lambda: state)
    env.check('within-stop-timeout', state['stopped_at'] - state['stop_at'] <= 1000.0)


def scen_missing_arg(env, mode):
    """'every put accepted results in exactly one of on_success, on_error or on_cancel carrying the original event data':
    also a put that lacks an item the coroutine's arguments are taken from (f_args=['value'] by default) - the run
    cannot be started, which is an error of that run (on_error), not a lost event and not the end of the block"""
    circ = fresh_circuit()
    loopref = []
    now = lambda: loopref[0].time()
    p = Probe('p', clock=now)
    dur = env.real('dur', 0, 10, lo_open=True)
    gap = env.real('gap', 0, 20)
    ran = []

    async def coro(value):
        ran.append(value)
        await asyncio.sleep(dur)
        return ('result', value)
    oa = edzed.OutputAsync('oa', coro=coro, mode=mode, stop_timeout=100.0,
                           on_success=edzed.Event(p, 'ok'), on_cancel=edzed.Event(p, 'cancel'), on_error=edzed.Event(p, 'err'))
    state = {}

    async def main():
        loopref.append(asyncio.get_running_loop())
        task = asyncio.create_task(circ.run_forever())
        await circ.wait_init()
        ev = edzed.ExtEvent(oa, 'put')
        try:
            state['ret'] = ev.send(extra='no value item')
        except Exception as err:
            state['ret'] = err
        await asyncio.sleep(gap)
        state['alive'] = circ.is_ready() and not task.done()
        if state['alive']:
            ev.send(7)
            await asyncio.sleep(30.0)
            state['output_idle'] = oa.output
            await circ.shutdown()
        else:
            try:
                await task
            except BaseException as err:
                state['end'] = err
    vloop.run(main())
    env.note('put-without-argument-item')
    refused = isinstance(state['ret'], Exception)
    if refused:
        # refusing the put outright (reported to the sender) would be fine too - it is then not an accepted put
        env.check('one-result-per-put', state['alive'] and [et for _, et, _ in p.log] == ['ok'], info=lambda: (state, p.log))
        return
    kinds = [(et, d['put'].get('value', 'MISSING')) for _, et, d in p.log]
    env.check('noerror', state['alive'] and isinstance(circ.error, asyncio.CancelledError), info=lambda: (state, circ.error))
    env.check('one-result-per-put', sorted(kinds, key=str) == sorted([('err', 'MISSING'), ('ok', 7)], key=str) and ran == [7],
              info=lambda: (mode, kinds, ran, state))
    if state['alive']:
        env.check('output-idle', state['output_idle'] == 0, info=lambda: state)
        bad = [d for _, et, d in p.log if et == 'err']
        env.check('result-data', len(bad) == 1 and bad[0]['put'].get('extra') == 'no value item'
                  and isinstance(bad[0].get('error'), Exception), info=lambda: bad)


def scen_stop_timeout(env, mode, stop_data):
    """'at stop pending work is completed within stop_timeout': however much work is pending - two queued runs of a
    symbolic duration each, optionally stop_data - the clean-up of the block never takes longer than stop_timeout"""
    circ = fresh_circuit()
    loopref = []
    now = lambda: loopref[0].time()
    p = Probe('p', clock=now)
    T = env.real('stop_timeout', 0, 5, lo_open=True)
    D = env.real('dur', 0, 20, lo_open=True)
    ts = env.real('t_stop', 0, 30)
    runs = []

    async def coro(value):
        runs.append(('start', now(), value))
        try:
            await asyncio.sleep(D)
        finally:
            runs.append(('finish', now(), value))
        return value
    kw = {'stop_data': {'value': STOP_VALUE}} if stop_data else {}
    oa = edzed.OutputAsync('oa', coro=coro, mode=mode, stop_timeout=T, on_success=edzed.Event(p, 'ok'),
                           on_cancel=edzed.Event(p, 'cancel'), on_error=edzed.Event(p, 'err'), **kw)
    state = {}

    async def main():
        loop = asyncio.get_running_loop()
        loopref.append(loop)
        asyncio.create_task(circ.run_forever())
        await circ.wait_init()
        ev = edzed.ExtEvent(oa, 'put')
        ev.send(0)
        ev.send(1)
        await asyncio.sleep(ts)
        state['stop_at'] = loop.time()
        await circ.shutdown()
        state['stopped_at'] = loop.time()
        state['leftover'] = [t.get_name() for t in asyncio.all_tasks() if t is not asyncio.current_task() and not t.done()]
        await asyncio.sleep(100.0)
        state['late'] = [r for r in runs if r[1] > state['stopped_at']]
    vloop.run(main())
    took = state['stopped_at'] - state['stop_at']
    if env.possible(took >= T):
        env.note('pending-work-longer-than-stop-timeout')
    env.check('within-stop-timeout', took <= T, info=lambda: (mode, stop_data, str(took), str(T), str(D), runs))
    env.check('no-leftover', not state['leftover'] and not state['late'], info=lambda: state)


def scen_ctor(env):
    """guard_time must not exceed stop_timeout"""
    fresh_circuit()
    g = env.real('guard', 0, 100)
    st = env.real('stop_timeout', 0, 100, lo_open=True)

    async def coro(v):
        pass
    try:
        edzed.OutputAsync('oa', coro=coro, mode='w', guard_time=g, stop_timeout=st, on_error=None)
        env.check('ctor-guard', g <= st)
    except ValueError:
        env.check('ctor-guard', g > st)
    fresh_circuit()
    try:
        edzed.OutputAsync('ob', coro=coro, mode='x', on_error=None)
        env.check('ctor-mode', False)
    except ValueError:
        env.check('ctor-mode', True)


def shards(tier):
    n = BOUNDS[tier]['puts']
    out = [{'name': 'ctor', 'scenario': 'scen_ctor'}]
    for mode in ('wait', 'cancel', 'start'):
        for sd in (False, True):
            out.append({'name': f'{mode}: pending work vs stop_timeout, stop_data={sd}', 'scenario': 'scen_stop_timeout',
                        'params': {'mode': mode, 'stop_data': sd}, 'cost': 3})
        out.append({'name': f'{mode}: put without the argument item', 'scenario': 'scen_missing_arg', 'params': {'mode': mode}})
    for mode in ('wait', 'cancel', 'start'):
        for wg in (False, True):
            for sd in (False, True):
                if mode == 'start' and wg and tier == 'quick':
                    continue
                for late in (False, True):
                    if late and (mode == 'start' or (tier == 'quick' and sd)):
                        continue
                    nn = n if (n <= 2 or (not sd and not late and not (wg and mode in ('cancel', 'start')))) else 2
                    out.append({'name': f'{mode} guard={wg} puts={nn} stop_data={sd}' + (' late-ties' if late else ''),
                                'scenario': 'scen_oa',
                                'params': {'mode': mode, 'with_guard': wg, 'nput': nn, 'stop_data': sd, 'late': late},
                                'cost': (3 if wg else 1) * (2 if sd else 1)})
    # a put in the window between the stop request and the block's stop()
    for mode in ('start', 'wait', 'cancel'):
        for sd in (False, True):
            out.append({'name': f'{mode} puts=2 stop_data={sd} last put after the stop request', 'scenario': 'scen_oa',
                        'params': {'mode': mode, 'with_guard': False, 'nput': 2, 'stop_data': sd, 'hop_put': True}, 'cost': 2})
    return out
