"""
C10 - a circuit that cannot settle is stopped with an error; one that settles is not.

Real code executed symbolically: Circuit._simulate (evaluation counter, limit, select_blk) stepped
by hand, CBlock.eval_block, Event.send feedback.

(a) cyclic networks of <= 4 blocks over Not / Xor / identity / And with solver-chosen wiring and
symbolic input values: z3 itself decides (one SAT query per wiring and input class, over the block
functions) whether a consistent assignment exists; if none exists the simulator must raise the
'instability' EdzedCircuitError within the documented number of evaluations;
(b) loops closed through on_output events; (c) acyclic networks with few source-to-block paths are
never reported as unstable for ANY evaluation order (solver-chosen pop / iteration order), and
whenever the simulator goes idle the network is consistent.
"""
import z3
from symx.core import And_, Or_, Not_, Iff_, eq_, truthy, is_sym
import edzed
from edzed import simulator
from harness.simdrive import Driver

PROPERTY = 'C10'
LEVEL = 'model_checking'
BOUNDS = {'quick': {'cyclic': '1-2 blocks: every wiring with <= 2 inputs per block; 3 blocks: rings with chords', 'acyclic': 'catalog of 6 networks',
                    'eval order': 'all pop()/iteration-start choices (quick: the first 2-4 selection points of each burst are enumerated, name order afterwards)'},
          'thorough': {'cyclic': '1-3 blocks: every wiring (3: one enumerated selection point per burst); 4 blocks: rings with chords (one enumerated selection point per burst)', 'acyclic': 'catalog (8 networks, one of them at the documented margin)',
                       'eval order': 'as quick'}}
OUTSIDE = ["networks with more than 4 cyclic blocks", "block functions other than Not/Xor/identity/And/Or",
           "cyclic networks WITH a consistent assignment may either settle or be reported (both accepted)"]
STUBS = ["Circuit.sblock_queue stub with IDLE marker; _simulate stepped by hand", "ChoiceSet for simulator.set"]
ASSUMPTIONS = ["documented margin = 3 evaluations per block of the circuit, per burst (_MAX_EVALS_PER_BLOCK)"]
EXPECT_LABELS = {'all': ['unsat-reported', 'eval-bound', 'idle-consistent', 'acyclic-never-unstable', 'event-loop-reported',
                         'event-loop-settles']}
EXPECT_NOTES = {'all': ['no-consistent-assignment', 'consistent-settled', 'acyclic-at-the-margin', 'burst-above-3-per-cblock']}
FLOORS = {'quick': {'paths': 500, 'checks': 1000}, 'thorough': {'paths': 5000, 'checks': 10000}}

DOCUMENTED_MARGIN = 3     # evaluations per block of the circuit and burst (a literal: not read from the code under test)
COUNT = [0]
RUNAWAY = 500          # watchdog: far beyond any documented limit (3 x <= 8 blocks)


class Runaway(BaseException):
    pass


def tick():
    COUNT[0] += 1
    if COUNT[0] > RUNAWAY:
        raise Runaway()


def counted(cls):
    class C(cls):
        def calc_output(self):
            tick()
            return super().calc_output()
    C.__name__ = 'C' + cls.__name__
    return C


CNot, CXor, CAnd, COr = counted(edzed.Not), counted(edzed.Xor), counted(edzed.And), counted(edzed.Or)


def ident(x):
    tick()
    return bool(x)      # boolean identity (an uninitialised predecessor in a loop reads as False)


def make_block(kind, name, srcs):
    if kind == 'not':
        return CNot(name).connect(srcs[0])
    if kind == 'id':
        return edzed.FuncBlock(name, func=ident).connect(srcs[0])
    cls = {'xor': CXor, 'and': CAnd, 'or': COr}[kind]
    return cls(name).connect(*srcs)


def fz(kind, ins):
    """block function over z3 booleans"""
    if kind == 'not':
        return z3.Not(ins[0])
    if kind == 'id':
        return ins[0]
    if kind == 'and':
        return z3.And(*ins)
    if kind == 'or':
        return z3.Or(*ins)
    r = ins[0]
    for x in ins[1:]:
        r = z3.Xor(r, x)
    return r


def fpy(kind, ins):
    if kind == 'not':
        return not ins[0]
    if kind == 'id':
        return ins[0]
    if kind == 'and':
        return all(ins)
    if kind == 'or':
        return any(ins)
    return bool(sum(1 for v in ins if v) % 2)


def has_consistent_assignment(spec, inputs):
    """spec: [(kind, [sources])], source = ('in', k) | ('cb', j); inputs: concrete booleans.
    Decided by z3 (independent of the simulator)."""
    outs = [z3.Bool(f'o{j}') for j in range(len(spec))]
    s = z3.Solver()
    for j, (kind, srcs) in enumerate(spec):
        ins = [z3.BoolVal(bool(inputs[x[1]])) if x[0] == 'in' else outs[x[1]] for x in srcs]
        s.add(outs[j] == fz(kind, ins))
    return s.check() == z3.sat


def is_consistent(spec, inputs, real):
    for j, (kind, srcs) in enumerate(spec):
        ins = [bool(inputs[x[1]]) if x[0] == 'in' else bool(real[x[1]]) for x in srcs]
        if kind == 'id':
            if bool(real[j]) != ins[0]:
                return False
        elif bool(real[j]) != fpy(kind, ins):
            return False
    return True


def run_net(env, spec, ninputs, label_prefix, expect_acyclic=False, order_budget=10 ** 9, names=None):
    try:
        _run_net(env, spec, ninputs, label_prefix, expect_acyclic, order_budget, names)
    except Runaway:
        env.check('eval-bound', False, info=lambda: (spec, 'more than %d evaluations in one burst' % RUNAWAY))


def _run_net(env, spec, ninputs, label_prefix, expect_acyclic, order_budget, names=None):
    cname = (lambda j: names[j]) if names else (lambda j: f'c{j}')
    drv = Driver(order_budget=order_budget)
    vals = [env.int(f'i{k}') for k in range(ninputs)]
    inp = [edzed.Input(f'i{k}', initdef=v) for k, v in enumerate(vals)]
    # the truth value of every input decides the question: fork on it first
    truth = [bool(v) for v in vals]
    blocks = []
    for j, (kind, srcs) in enumerate(spec):
        srcnames = [f'i{x[1]}' if x[0] == 'in' else cname(x[1]) for x in srcs]
        blocks.append(make_block(kind, cname(j), srcnames))
    drv.start()
    nblocks = len(list(drv.circ.getblocks()))
    limit = DOCUMENTED_MARGIN * nblocks
    COUNT[0] = 0
    err = drv.run_to_idle()
    n_eval = COUNT[0]
    sat = has_consistent_assignment(spec, truth)
    env.check('eval-bound', n_eval <= limit, info=lambda: (spec, n_eval, limit))
    unstable = isinstance(err, edzed.EdzedCircuitError) and 'instability' in str(err)
    env.check('no-other-error', err is None or unstable, info=lambda: err)
    if expect_acyclic:
        env.check('acyclic-never-unstable', err is None, info=lambda: (spec, truth, err, n_eval))
    if not sat:
        env.note('no-consistent-assignment')
        env.check('unsat-reported', unstable, info=lambda: (spec, truth, err, [b.output for b in blocks]))
    elif unstable:
        env.note('consistent-reported')
    else:
        env.note('consistent-settled')
    if err is None:
        real = [b.output for b in blocks]
        env.check('idle-consistent', is_consistent(spec, truth, real), info=lambda: (spec, truth, real))
        # one more burst: a change of every input, the counter starts again
        for k in range(ninputs):
            nv = env.int(f'i{k}_new')
            inp[k].event('put', value=nv)
        truth2 = [bool(i.output) for i in inp]
        COUNT[0] = 0
        err2 = drv.run_to_idle()
        sat2 = has_consistent_assignment(spec, truth2)
        unstable2 = isinstance(err2, edzed.EdzedCircuitError) and 'instability' in str(err2)
        env.check('eval-bound', COUNT[0] <= limit, info=lambda: (spec, COUNT[0], limit))
        if COUNT[0] > DOCUMENTED_MARGIN * len(spec):
            env.note('burst-above-3-per-cblock')      # the allowance counts ALL blocks of the circuit
        if expect_acyclic:
            env.check('acyclic-never-unstable', err2 is None, info=lambda: (spec, truth2, err2))
        if not sat2:
            env.check('unsat-reported', unstable2, info=lambda: (spec, truth2, err2))
        if err2 is None:
            env.check('idle-consistent', is_consistent(spec, truth2, [b.output for b in blocks]),
                      info=lambda: (spec, truth2, [b.output for b in blocks]))
    drv.close()
    env.obs('net', spec, sat, unstable, 'evaluations in the first burst', n_eval, 'in the last burst', COUNT[0], 'limit', limit)


def choose_spec(env, n, ninputs, kinds, first_kind=None, ring=False, fix0=None):
    spec = []
    for j in range(n):
        kind = first_kind if (j == 0 and first_kind) else env.pick(kinds, f'kind{j}')
        pool = [('in', k) for k in range(ninputs)] + [('cb', x) for x in range(n)]
        if ring:
            # ring with chords: the predecessor in the ring plus (for 2-input blocks) any other source
            prev = ('cb', (j - 1) % n)
            if kind in ('not', 'id'):
                srcs = [prev]
            else:
                srcs = [prev, pool[fix0 if (j == 0 and fix0 is not None) else env.choose(len(pool), f'src{j}b')]]
        elif kind in ('not', 'id'):
            srcs = [pool[env.choose(len(pool), f'src{j}')]]
        else:
            a = fix0 if (j == 0 and fix0 is not None) else env.choose(len(pool), f'src{j}a')
            if a >= len(pool):
                from symx.core import PathAbort
                raise PathAbort()
            b = a + env.choose(len(pool) - a, f'src{j}b')      # unordered pair (symmetry breaking)
            srcs = [pool[a], pool[b]]
        spec.append((kind, srcs))
    return spec


def is_cyclic(spec):
    n = len(spec)
    adj = {j: [x[1] for x in spec[j][1] if x[0] == 'cb'] for j in range(n)}
    state = {}

    def dfs(u):
        state[u] = 1
        for v in adj[u]:
            if state.get(v) == 1 or (state.get(v) is None and dfs(v)):
                return True
        state[u] = 2
        return False
    return any(state.get(j) is None and dfs(j) for j in range(n))


def scen_cyclic(env, n, first_kind, kinds=('not', 'id', 'xor', 'and'), order_budget=10 ** 9, ring=False, fix0=None):
    spec = choose_spec(env, n, 1, list(kinds), first_kind, ring, fix0)
    if not is_cyclic(spec):
        return
    run_net(env, spec, 1, 'cyclic', order_budget=order_budget)


def count_paths(spec):
    """total number of source-to-block paths"""
    memo = {}

    def paths(j):
        if j not in memo:
            memo[j] = sum(1 if x[0] == 'in' else paths(x[1]) for x in spec[j][1])
        return memo[j]
    return sum(paths(j) for j in range(len(spec)))


ACYCLIC = {
    'chain5': [('not', [('in', 0)]), ('id', [('cb', 0)]), ('not', [('cb', 1)]), ('id', [('cb', 2)]), ('not', [('cb', 3)])],
    'diamond': [('not', [('in', 0)]), ('and', [('cb', 0), ('in', 1)]), ('or', [('cb', 0), ('in', 1)]), ('xor', [('cb', 1), ('cb', 2)])],
    'ladder': [('or', [('in', 0), ('in', 1)]), ('and', [('cb', 0), ('in', 1)]), ('xor', [('cb', 0), ('cb', 1)]),
               ('or', [('cb', 1), ('cb', 2)])],
    'fan': [('not', [('in', 0)]), ('id', [('cb', 0)]), ('id', [('cb', 0)]), ('xor', [('cb', 1), ('cb', 2)]), ('and', [('cb', 3), ('in', 1)])],
    'two-level': [('and', [('in', 0), ('in', 1)]), ('or', [('in', 0), ('in', 1)]), ('xor', [('cb', 0), ('cb', 1)])],
    # glitch cascade close to the documented margin: the a* blocks combine a signal with its own delayed copy
    # (two identity blocks), so every stage doubles the number of paths AND - when the simulator happens to
    # evaluate a* before the delay elements (name order = the default of the ChoiceSet) - of evaluations:
    # 28 paths, up to 28 evaluations in one burst, 10 blocks (9 combinational + 1 Input) -> allowance 30
    'glitch3': ([('id', [('in', 0)]), ('id', [('cb', 0)]), ('xor', [('in', 0), ('cb', 1)]),
                 ('id', [('cb', 2)]), ('id', [('cb', 3)]), ('xor', [('cb', 2), ('cb', 4)]),
                 ('id', [('cb', 5)]), ('id', [('cb', 6)]), ('xor', [('cb', 5), ('cb', 7)])], 1,
                ['q5', 'q4', 'p2', 'q3', 'q2', 'p1', 'q1', 'q0', 'p0']),      # name order = downstream first = the worst order
    'reconv3': [('id', [('in', 0)]), ('not', [('cb', 0)]), ('and', [('cb', 0), ('cb', 1)]), ('or', [('cb', 0), ('cb', 2)])],
}


def scen_acyclic(env, name, order_budget=6):
    spec, nin, names = ACYCLIC[name], 2, None
    if isinstance(spec, tuple):
        spec, nin, names = spec
    nblocks = len(spec) + nin
    assert count_paths(spec) <= 3 * nblocks, (name, count_paths(spec))
    run_net(env, spec, nin, 'acyclic', expect_acyclic=True, order_budget=order_budget, names=names)
    if nblocks - count_paths(spec) / 3 < 1:
        env.note('acyclic-at-the-margin')


def scen_event_loop(env, kind):
    try:
        _event_loop(env, kind)
    except Runaway:
        env.check('eval-bound', False, info=lambda: 'runaway')


def _event_loop(env, kind):
    """feedback closed through an on_output event: CBlock -> Input -> CBlock"""
    drv = Driver()
    v = env.int('i0')
    inp = edzed.Input('i0', initdef=v)
    ev = edzed.Event('i0', 'put', efilter=edzed.not_from_undef)
    COUNT[0] = 0
    if kind == 'not':
        c0 = CNot('c0', on_output=ev).connect('i0')           # i0 := not i0 for ever
    elif kind == 'not-chain':
        # two combinational blocks before the event closes the loop: i0 := c1 = c0 = not i0
        edzed.FuncBlock('c1', func=ident, on_output=ev).connect('c0')
        c0 = CNot('c0').connect('i0')
        kind = 'not'
    elif kind in ('not-two-inputs', 'ident-two-inputs'):
        # the loop runs through two sequential blocks and two events: i1 := c0 = [not] i0 ; i0 := c1 = i1
        edzed.Input('i1', initdef=0)
        ev1 = edzed.Event('i1', 'put', efilter=edzed.not_from_undef)
        edzed.FuncBlock('c1', func=ident, on_output=ev).connect('i1')
        if kind == 'not-two-inputs':
            # events fire on CHANGES only: a flip of i0 may be absorbed (i1 keeps an equal value) and the circuit is
            # then quiescent - nothing to report; only the evaluation bound is claimed for this one
            c0 = CNot('c0', on_output=ev1).connect('i0')
            kind = 'bound-only'
        else:
            c0 = edzed.FuncBlock('c0', func=ident, on_output=ev1).connect('i0')
    else:
        c0 = edzed.FuncBlock('c0', func=ident, on_output=ev).connect('i0')    # i0 := i0 settles
    drv.start()
    err = drv.run_to_idle()
    state_flip = [False]
    if err is None:
        nv = env.int('i0_new')
        state_flip[0] = bool(v) != bool(nv)          # forks
        inp.event('put', value=nv)
        COUNT[0] = 0
        err = drv.run_to_idle()
    nblocks = len(list(drv.circ.getblocks()))
    limit = DOCUMENTED_MARGIN * nblocks
    unstable = isinstance(err, edzed.EdzedCircuitError) and 'instability' in str(err)
    env.check('eval-bound', COUNT[0] <= limit, info=lambda: (COUNT[0], limit))
    flipped = bool(inp.output) != bool(v) if False else None
    if kind == 'bound-only':
        env.check('event-loop-quiet', err is None or unstable, info=lambda: err)
    elif kind == 'not':
        # i0 := not i0 whenever c0 changes: once the input's truth value has been flipped from outside
        # the loop can never become consistent again
        if state_flip[0]:
            env.check('event-loop-reported', unstable, info=lambda: (err, inp.output, c0.output))
        else:
            env.check('event-loop-quiet', err is None and bool(c0.output) == (not bool(inp.output)),
                      info=lambda: (err, inp.output, c0.output))
    else:
        env.check('event-loop-settles', err is None and bool(c0.output) == bool(inp.output),
                  info=lambda: (err, inp.output, c0.output))
    drv.close()


def scen_idle_after_unknown_event(env, name):
    """'whenever the simulator does go idle the network is in a consistent state' - also when an output event of a
    changed sequential block failed at its sender with EdzedUnknownEvent (the error that does not stop the simulation):
    the catalogue network of C01 with such a destination behind input 0, judged by C01's closed-form oracle"""
    from harness import C01
    C01.scen_catalog(env, name, nburst=1, first_target=0, picky_input=0, order_budget=6 if name == 'ladder' else 10 ** 9)


def shards(tier):
    out = []
    for name in (('diamond',) if tier == 'quick' else ('diamond', 'ladder', 'fb-not')):
        out.append({'name': f'idle after an unknown event: {name}', 'scenario': 'scen_idle_after_unknown_event',
                    'params': {'name': name}, 'cost': 30})
    for n in (1, 2):
        for fk in ('not', 'id', 'xor', 'and'):
            for f0 in ([None] if fk in ('not', 'id') or n == 1 else range(n + 1)):
                out.append({'name': f'cyclic n={n} first={fk} src0={f0}', 'scenario': 'scen_cyclic',
                            'params': {'n': n, 'first_kind': fk, 'fix0': f0, 'order_budget': 4 if tier == 'quick' else 99},
                            'cost': 10 ** n})
    for fk in ('not', 'id', 'xor', 'and'):
        for f0 in ([None] if fk in ('not', 'id') else range(4)):
            out.append({'name': f'cyclic ring n=3 first={fk} src0={f0}', 'scenario': 'scen_cyclic',
                        'params': {'n': 3, 'first_kind': fk, 'order_budget': 2 if tier == 'quick' else 4, 'ring': True, 'fix0': f0},
                        'cost': 3000})
    if tier == 'thorough':
        for fk in ('not', 'id', 'xor', 'and'):
            for f0 in ([None] if fk in ('not', 'id') else range(5)):
                out.append({'name': f'cyclic ring n=4 first={fk} src0={f0}', 'scenario': 'scen_cyclic',
                            'params': {'n': 4, 'first_kind': fk, 'order_budget': 1, 'ring': True, 'kinds': ['not', 'xor', 'and'],
                                       'fix0': f0},
                            'cost': 9000})
            out.append({'name': f'cyclic complete n=3 first={fk}', 'scenario': 'scen_cyclic',
                        'params': {'n': 3, 'first_kind': fk, 'order_budget': 1}, 'cost': 9000})
    for name in ACYCLIC:
        out.append({'name': f'acyclic {name}', 'scenario': 'scen_acyclic',
                    'params': {'name': name, 'order_budget': (3 if tier == 'quick' else 8) if name != 'glitch3' else
                               (1 if tier == 'quick' else 3)}, 'cost': 50})
    for k in ('not', 'id', 'not-chain', 'not-two-inputs', 'ident-two-inputs'):
        out.append({'name': f'event loop {k}', 'scenario': 'scen_event_loop', 'params': {'kind': k}})
    return out
