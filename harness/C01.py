"""
C01 - combinational outputs agree with their inputs whenever the circuit is idle.

Real code executed symbolically: Circuit._simulate (incl. select_blk) stepped by hand with
send(None) - "idle" is an exact observable event -, Circuit._finalize/_validate_blk,
CBlock.connect/eval_block, InputGetter, SBlock.set_output/event, Event.send, calc_output of Not,
And, Or, Xor, Override, Compare, FuncBlock; harness B: run_forever + wait_init on the virtual loop.

Input values are symbolic integers (truthiness = non-zero) - so one path covers a whole class of
input vectors -, the burst composition, the wiring (family of 1- and 2-CBlock circuits plus a
catalog) and the order in which the simulator picks blocks from its evaluation set are
solver-enumerated.  Oracle: closed-form functions from docs/cblocks.rst composed along the
declared wiring.
"""
import asyncio
from symx.core import And_, Or_, Not_, Iff_, If_, eq_, truthy, is_sym
from symx.edz import fresh_circuit
from symx import vloop
import edzed
from edzed import simulator
from harness.simdrive import Driver

PROPERTY = 'C01'
LEVEL = 'model_checking'
BOUNDS = {'quick': {'family': 'all 1-CBlock circuits over 2 inputs (arity <= 2, sources: input, _not_input, Const) + catalog',
                    'burst': '<= 3 changes', 'eval order': 'all pop()/iteration-start choices'},
          'thorough': {'family': 'all 1-CBlock circuits + a sample of the 2-CBlock circuits (second block always uses the first, '
                                 'plain or inverted, plus one free source; per pair of block types one chunk = 1/8 resp. 1/2 of the first '
                                 "block's wirings over the reduced source set, first 3 evaluation-order choices enumerated) + catalog",
                       'burst': '<= 3 changes', 'eval order': 'as quick (2-CBlock family: first 3 selection points)'}}
OUTSIDE = ["exhaustiveness over ALL topologies with <= 3 CBlocks (about 10^8 wirings): only the catalog has 3+ CBlocks",
           "the complete 2-CBlock family (192 chunks of about 15 CPU-minutes each): the thorough tier takes one chunk per pair of block types",
           "more than 4 inputs", "FuncBlock functions other than those of the catalog", "bursts longer than 3 changes"]
STUBS = ["Circuit.sblock_queue = stub whose get() yields IDLE when empty; _simulate stepped with send(None)",
         "the name 'set' in edzed.simulator bound to ChoiceSet while stepping (solver-chosen pop / iteration start)"]
ASSUMPTIONS = ["truthiness of an integer input = (value != 0)"]
EXPECT_LABELS = {'all': ['idle-consistent', 'initial-consistent', 'wait-init-consistent', 'compare-hysteresis',
                         'feedback-settled']}
EXPECT_NOTES = {'all': ['burst-multi', 'burst-empty', 'feedback-changed-sblock', 'compare-in-band',
                        'sender-got-unknown-event']}
FLOORS = {'quick': {'paths': 2000, 'checks': 5000}, 'thorough': {'paths': 20000, 'checks': 50000}}
# wall-time caps (a run that hits its cap is INCONCLUSIVE, exit 2): the thorough tier has a few shards of 30-50 CPU-minutes
BUDGET_S = {'quick': 600, 'thorough': 7200}


# --- circuit description --------------------------------------------------------------------
# source: ('in', k) | ('nin', k) | ('const', v) | ('cb', j) | ('ncb', j)
# block : (type, args...)   types: not/and/or/xor (sources list), override (input, override, null),
#         compare (source, low, high), func (name, sources, groupsources)

def src_name(s):
    k = s[0]
    if k == 'in':
        return f'i{s[1]}'
    if k == 'nin':
        return f'_not_i{s[1]}'
    if k == 'cb':
        return f'c{s[1]}'
    if k == 'ncb':
        return f'_not_c{s[1]}'
    return edzed.Const(s[1]) if s[2:] == ('wrapped',) else s[1]


FUNCS = {
    'add': (lambda a, b: a + b, True),
    'first_or_zero': (lambda args: args[0] if args else 0, False),
    'pick': (lambda sel, a, b: a if sel else b, True),
    'kw': (lambda x, *, grp: (x, len(grp), bool(grp and grp[0])), True),
}


class Picky(edzed.SBlock):
    """destination that knows the event 'ok' only; once strict, any other event type is an unknown event -
    the one error edzed reports to the sender without stopping the simulation (docs/events.rst)"""
    strict = False

    def init_regular(self):
        self.set_output(0)

    def _event_ok(self, **data):
        return True

    def _event(self, etype, data):
        if self.strict:
            return super()._event(etype, data)
        return None


def build_circuit(drv, inputs, blocks, feedback=None, picky_input=None):
    ins = []
    for k, v in enumerate(inputs):
        kw = {}
        if k == picky_input:
            # every output change of this input is also sent to a block that rejects the event type chosen
            # for falsy values: the sender of the 'put' gets EdzedUnknownEvent, the simulation goes on
            Picky('picky')
            kw['on_output'] = edzed.Event('picky', edzed.EventCond('ok', 'bogus'))
        ins.append(edzed.Input(f'i{k}', initdef=v, **kw))
    cbs = []
    for j, b in enumerate(blocks):
        t = b[0]
        name = f'c{j}'
        kw = {}
        if feedback and feedback[0] == j:
            kw['on_output'] = edzed.Event(f'i{feedback[1]}', 'put')
        if t in ('and', 'or', 'xor'):
            cls = {'and': edzed.And, 'or': edzed.Or, 'xor': edzed.Xor}[t]
            blk = cls(name, **kw)
            if b[1]:
                blk.connect(*[src_name(s) for s in b[1]])
            # no inputs at all: left unconnected (unpack=False with an empty group)
        elif t == 'not':
            blk = edzed.Not(name, **kw).connect(src_name(b[1][0]))
        elif t == 'override':
            blk = edzed.Override(name, null_value=b[3], **kw).connect(input=src_name(b[1]), override=src_name(b[2]))
        elif t == 'compare':
            blk = edzed.Compare(name, low=b[2], high=b[3], **kw).connect(src_name(b[1]))
        elif t == 'func':
            fn, unpack = FUNCS[b[1]]
            blk = edzed.FuncBlock(name, func=fn, unpack=unpack, **kw)
            if b[1] == 'kw':
                blk.connect(src_name(b[2][0]), grp=[src_name(s) for s in b[3]])
            else:
                blk.connect(*[src_name(s) for s in b[2]])
        cbs.append(blk)
    return ins, cbs


def val(s, ins, exp):
    """reference value of a source"""
    k = s[0]
    if k == 'in':
        return ins[s[1]].output
    if k == 'nin':
        return Not_(truthy(ins[s[1]].output))
    if k == 'cb':
        return exp[s[1]]
    if k == 'ncb':
        return Not_(truthy(exp[s[1]]))
    return s[1]


def expected_one(j, b, ins, exp, prev_compare):
    """closed-form output of block j (docs/cblocks.rst) given the values of the earlier blocks"""
    if True:
        t = b[0]
        if t == 'and':
            e = And_(*[truthy(val(s, ins, exp)) for s in b[1]])
        elif t == 'or':
            e = Or_(*[truthy(val(s, ins, exp)) for s in b[1]])
        elif t == 'xor':
            e = False
            for s in b[1]:
                tv = truthy(val(s, ins, exp))
                e = Or_(And_(e, Not_(tv)), And_(Not_(e), tv))
        elif t == 'not':
            e = Not_(truthy(val(b[1][0], ins, exp)))
        elif t == 'override':
            ov = val(b[2], ins, exp)
            iv = val(b[1], ins, exp)
            is_null = eq_(ov, b[3]) if (b[3] is not None and ov is not None) else (ov is b[3])
            e = ('ite', is_null, iv, ov)
        elif t == 'compare':
            x = val(b[1], ins, exp)
            e = ('cmp', x, b[2], b[3], prev_compare.get(j))
        elif t == 'func':
            if b[1] == 'add':
                e = val(b[2][0], ins, exp) + val(b[2][1], ins, exp)
            elif b[1] == 'first_or_zero':
                e = val(b[2][0], ins, exp) if b[2] else 0
            elif b[1] == 'pick':
                e = ('ite', truthy(val(b[2][0], ins, exp)), val(b[2][1], ins, exp), val(b[2][2], ins, exp))
            else:
                g = [val(s, ins, exp) for s in b[3]]
                e = ('tuple', val(b[2][0], ins, exp), len(g), truthy(g[0]) if g else False)
        return e


def agrees(real, e, env, direct=True):
    """formula: the real output equals the reference value"""
    if isinstance(e, tuple) and e and e[0] == 'ite':
        c = e[1]
        if isinstance(c, bool):
            return agrees(real, e[2] if c else e[3], env)
        return And_(Or_(Not_(c), agrees(real, e[2], env)), Or_(c, agrees(real, e[3], env)))
    if isinstance(e, tuple) and e and e[0] == 'cmp':
        _, x, low, high, prev = e
        if prev is None:
            thr2 = low + high          # first evaluation: threshold is the midpoint
            want = x * 2 >= thr2
        else:
            want = If_bool(prev, x >= low, x >= high)
        return Iff_(truthy(real), want) if not isinstance(real, bool) or is_sym(want) else (real == bool(want))
    if isinstance(e, tuple) and e and e[0] == 'tuple':
        return (isinstance(real, tuple) and len(real) == 3 and And_(eq_(real[0], e[1]), real[1] == e[2],
                                                                     Iff_(truthy(real[2]), e[3])))
    if isinstance(e, bool) or type(e).__name__ == 'SymBool':
        # "equals" in the sense of ==, the relation edzed's change detection uses (1 == True)
        if isinstance(real, bool) or type(real).__name__ == 'SymBool':
            return Iff_(real, e)
        if isinstance(real, (int, float)) or is_sym(real):
            return eq_(real, If_(e, 1, 0))
        return False
    return eq_(real, e)


def If_bool(c, a, b):
    if isinstance(c, bool):
        return a if c else b
    return Or_(And_(c, a), And_(Not_(c), b))


def check_idle(env, label, blocks, ins, cbs, prev_compare):
    exp = []
    for j, blk in enumerate(cbs):
        e = expected_one(j, blocks[j], ins, exp, prev_compare)
        exp.append(e)
        real = blk.output
        ok = agrees(real, e, env)
        lab = 'compare-hysteresis' if blocks[j][0] == 'compare' else label
        env.check(lab, ok, info=lambda: (blocks, j, real, [i.output for i in ins], [c.output for c in cbs]))
        # later blocks refer to the REAL outputs of earlier ones only through exp: use real values
        # where the reference is not a plain value (ite/cmp/tuple), so that errors do not cascade
        if isinstance(e, tuple):
            exp[j] = real
        if blocks[j][0] == 'compare':
            x = val(blocks[j][1], ins, exp)
            if env.possible(And_(x >= blocks[j][2], x < blocks[j][3])):
                env.note('compare-in-band')


def scen_net(env, blocks, ninputs, nburst, feedback=None, first_target=None, picky_input=None, order_budget=10 ** 9):
    drv = Driver(order_budget=order_budget)
    vals = [env.int(f'i{k}_init') for k in range(ninputs)]
    ins, cbs = build_circuit(drv, vals, blocks, feedback, picky_input)
    try:
        drv.start()
    except Exception as err:
        env.check('start-ok', False, info=lambda: err)
        return
    err = drv.run_to_idle()
    env.check('no-error', err is None, info=lambda: err)
    if err:
        return
    prev_cmp = {}
    check_idle(env, 'initial-consistent', blocks, ins, cbs, prev_cmp)
    if picky_input is not None:
        drv.circ.findblock('picky').strict = True
    for rnd in range(2 if any(b[0] == 'compare' for b in blocks) else 1):
        prev_cmp = {j: cbs[j].output for j, b in enumerate(blocks) if b[0] == 'compare'}
        n = env.choose(nburst + 1, f'burst_len{rnd}') if not (first_target is not None and rnd == 0) else \
            1 + env.choose(nburst, f'burst_len{rnd}')
        env.note('burst-empty' if n == 0 else ('burst-multi' if n > 1 else 'burst-single'))
        for i in range(n):
            targets = list(range(ninputs))      # the feedback input may be written from outside too
            if first_target is not None and rnd == 0 and i == 0:
                if first_target not in targets:
                    return
                k = first_target
            else:
                k = targets[env.choose(len(targets), f'burst{rnd}_{i}_target')]
            v = env.int(f'burst{rnd}_{i}_value')
            try:
                ins[k].event('put', value=v)
            except edzed.EdzedUnknownEvent:
                # reported to the sender; "does not stop the simulation" - the change of the input itself happened
                env.check('unknown-event-only-from-picky', k == picky_input)
                env.note('sender-got-unknown-event')
                env.check('no-error', drv.circ.error is None, info=lambda: drv.circ.error)
        before = [i.output for i in ins]
        cj_before = cbs[feedback[0]].output if feedback else None
        err = drv.run_to_idle()
        env.check('no-error', err is None, info=lambda: err)
        if err:
            return
        if feedback:
            # the CBlock's event (sent while settling) is the last writer iff the CBlock changed in this burst;
            # otherwise the input keeps what the burst wrote / what it had
            cj_after = cbs[feedback[0]].output
            fb_in = ins[feedback[1]].output
            changed = Not_(eq_(cj_before, cj_after))
            want = Or_(And_(changed, eq_(fb_in, cj_after)), And_(Not_(changed), eq_(fb_in, before[feedback[1]])))
            env.check('feedback-settled', want, info=lambda: (cj_before, cj_after, before[feedback[1]], fb_in))
            if env.possible(changed):
                env.note('feedback-changed-sblock')
        check_idle(env, 'idle-consistent', blocks, ins, cbs, prev_cmp)
    drv.close()
    env.obs('net', blocks, [c.output for c in cbs])


def sources1(ninputs):
    out = []
    for k in range(ninputs):
        out += [('in', k), ('nin', k)]
    out += [('const', True), ('const', 0), ('const', 7, 'wrapped')]
    return out


def sources_small():
    return [('in', 0), ('nin', 0), ('in', 1), ('const', True), ('const', 7, 'wrapped')]


def family1(ninputs=2, small=False):
    """all 1-CBlock circuits"""
    S = sources_small() if small else sources1(ninputs)
    fam = []
    for t in ('and', 'or', 'xor'):
        fam.append((t, []))
        for a in S:
            fam.append((t, [a]))
            for b in S:
                fam.append((t, [a, b]))
    for t in ('and', 'or', 'xor'):
        # three- and four-input groups (a few representative wirings)
        fam.append((t, [S[0], S[2], S[1]]))
        fam.append((t, [S[2], S[0], S[0]]))
        fam.append((t, [S[1], S[3], S[2], S[0]]))
    for a in S:
        fam.append(('not', [a]))
    for a in S[:3]:
        for b in S:
            fam.append(('override', a, b, None))
            fam.append(('override', a, b, 0))
    for a in [S[0], S[2], S[-1]]:
        fam.append(('compare', a, 3, 8))
        fam.append(('compare', a, 5, 5))
    for a in [S[0], S[2]]:
        for b in [S[0], S[2], S[-1]]:
            fam.append(('func', 'add', [a, b]))
    fam.append(('func', 'first_or_zero', [('in', 0)]))
    fam.append(('func', 'pick', [('in', 0), ('in', 1), ('const', 7, 'wrapped')]))
    fam.append(('func', 'kw', [('in', 0)], [('in', 1), ('nin', 0)]))
    fam.append(('func', 'kw', [('nin', 1)], []))
    return fam


CATALOG = {
    'chain': [('and', [('in', 0), ('in', 1)]), ('or', [('cb', 0), ('nin', 2)]), ('xor', [('cb', 0), ('cb', 1), ('in', 0)])],
    'diamond': [('not', [('in', 0)]), ('and', [('cb', 0), ('in', 1)]), ('or', [('cb', 0), ('in', 2)]),
                ('xor', [('cb', 1), ('cb', 2)])],
    'shared-inverter': [('and', [('nin', 0), ('in', 1)]), ('or', [('nin', 0), ('nin', 0), ('in', 2)]),
                        ('xor', [('ncb', 0), ('ncb', 0), ('cb', 1)])],
    'compare-behind': [('func', 'add', [('in', 0), ('in', 1)]), ('compare', ('cb', 0), 3, 8), ('not', [('cb', 1)])],
    'override-chain': [('override', ('in', 0), ('in', 1), 0), ('override', ('cb', 0), ('in', 2), 0),
                       ('func', 'pick', [('cb', 1), ('in', 0), ('in', 1)])],
    'groups': [('func', 'kw', [('in', 0)], [('in', 1), ('nin', 2), ('const', 1)]), ('and', []), ('or', [('cb', 1), ('in', 2)])],
    'ladder': [('or', [('in', 0), ('in', 1)]), ('and', [('cb', 0), ('in', 1)]), ('xor', [('cb', 0), ('cb', 1)]),
               ('or', [('cb', 1), ('cb', 2)]), ('and', [('cb', 2), ('cb', 3), ('cb', 0)])],
}
FEEDBACK = {
    # (blocks, feedback=(cblock j -> input k)); input k is used only downstream of c_j
    'fb-and': ([('and', [('in', 0), ('in', 1)]), ('or', [('in', 2), ('in', 0)]), ('xor', [('in', 2), ('cb', 0)])], (0, 2)),
    'fb-not': ([('not', [('in', 0)]), ('and', [('in', 1), ('in', 0)])], (0, 1)),
}


def scen_family(env, typ, chunk, nchunks, second=None, small=False, nburst=3, order_budget=10 ** 9):
    fam = [b for b in family1(small=small) if b[0] == typ or (b[0] == 'func' and typ == 'func')]
    fam = fam[chunk::nchunks]
    b0 = fam[env.choose(len(fam), 'wiring')]
    blocks = [b0]
    if second is not None:
        # a second block over the inputs and the first block (plain or inverted)
        S2 = [('in', 0), ('nin', 1), ('cb', 0), ('ncb', 0), ('const', True)]
        t2 = second
        if t2 in ('and', 'or', 'xor'):
            a = S2[env.choose(len(S2), 's2a')]
            # sized by measurement: with both inputs of the second block free a chunk takes 15-25 CPU-minutes;
            # one input is always the first block (plain or inverted), the other one is free
            b = S2[2 + env.choose(2, 's2b')]
            blocks.append((t2, [a, b]))
        elif t2 == 'not':
            blocks.append(('not', [S2[2 + env.choose(2, 's2a')]]))
        elif t2 == 'compare':
            # Compare needs a numeric input: only the numeric FuncBlock functions qualify ('kw' returns a tuple -
            # comparing it with the thresholds is the user's TypeError, not a property of edzed)
            if b0[0] != 'func' or b0[1] == 'kw':
                from symx.core import PathAbort
                raise PathAbort()
            blocks.append(('compare', ('cb', 0), 3, 8))
        else:
            blocks.append(('override', ('cb', 0), S2[env.choose(2, 's2a')], None))
    scen_net(env, blocks, 2, nburst if second is None else 2, order_budget=order_budget)


def scen_catalog(env, name, nburst=3, first_target=None, picky_input=None, order_budget=10 ** 9):
    if name in CATALOG:
        scen_net(env, CATALOG[name], 3, nburst, first_target=first_target, picky_input=picky_input, order_budget=order_budget)
    else:
        blocks, fb = FEEDBACK[name]
        scen_net(env, blocks, 3, 2, feedback=fb, first_target=first_target, picky_input=picky_input)


def scen_wait_init(env, name):
    """harness B: the same oracle immediately after wait_init() on the event loop"""
    blocks = CATALOG[name]
    circ = fresh_circuit()

    class D:
        pass
    vals = [env.int(f'i{k}_init') for k in range(3)]
    ins, cbs = build_circuit(None, vals, blocks)
    state = {}

    async def main():
        asyncio.create_task(circ.run_forever())
        await circ.wait_init()
        state['outs'] = [c.output for c in cbs]
        check_idle(env, 'wait-init-consistent', blocks, ins, cbs, {})
        # one change through the real loop, then idle again
        v = env.int('new_value')
        ins[0].event('put', value=v)
        for _ in range(3):
            await asyncio.sleep(0)
        prev = {j: state['outs'][j] for j, b in enumerate(blocks) if b[0] == 'compare'}
        check_idle(env, 'idle-consistent', blocks, ins, cbs, prev)
        await circ.shutdown()
    vloop.run(main())


def shards(tier):
    out = []
    types = ['and', 'or', 'xor', 'not', 'override', 'compare', 'func']
    for t in types:
        n = 4 if t in ('and', 'or', 'xor', 'override') else (3 if t == 'compare' else 1)
        for c in range(n):
            out.append({'name': f'family1 {t} chunk{c}', 'scenario': 'scen_family',
                        'params': {'typ': t, 'chunk': c, 'nchunks': n, 'small': tier == 'quick',
                                   'nburst': 2 if tier == 'quick' else 3}, 'cost': 10})
    for name in list(CATALOG) + list(FEEDBACK):
        if tier == 'quick' and name in ('ladder', 'override-chain'):
            continue
        for ft in (0, 1, 2):
            params = {'name': name, 'nburst': 1 if tier == 'quick' else 2, 'first_target': ft}
            if name == 'ladder':
                # five blocks with many reconvergent paths: sized by measurement (a burst of two changes with every
                # evaluation order does not finish in an hour): one change, the first 6 order choices enumerated
                params.update(nburst=1, order_budget=6)
            out.append({'name': f'catalog {name} first_target={ft}', 'scenario': 'scen_catalog', 'params': params, 'cost': 30})
    # an output event of input 0 / 1 fails with EdzedUnknownEvent at the sender of the 'put' (no stop): still consistent
    for name, pk in (('chain', 0), ('diamond', 0), ('fb-and', 0)) if tier == 'quick' else \
            [(n, k) for n in list(CATALOG) + list(FEEDBACK) for k in (0, 1)]:
        if name in FEEDBACK and FEEDBACK[name][1][1] == pk:
            continue        # the feedback input is written by a CBlock inside the simulator task: an unknown event raised
                            # there is an error of the circuit itself and does stop the simulation
        # one change per burst in both tiers: measured - with two changes these shards take 30-50 CPU-minutes each
        params = {'name': name, 'nburst': 1, 'picky_input': pk, 'first_target': pk}
        if name == 'ladder':
            params.update(nburst=1, order_budget=6)
        out.append({'name': f'catalog {name} unknown event behind input {pk}', 'scenario': 'scen_catalog',
                    'params': params, 'cost': 30})
    for name in CATALOG:
        out.append({'name': f'wait_init {name}', 'scenario': 'scen_wait_init', 'params': {'name': name}})
    if tier == 'thorough':
        # two-block family: measured at ~15 CPU-minutes per chunk with every evaluation order (200 000 paths), 192 chunks.
        # Sized to fit: per pair of block types ONE chunk of the first block's wirings (rotating through the chunks, so
        # that all chunks occur across the pairs) and the first 3 selection points of the evaluation order enumerated
        # (the rest in name order).  The complete family is outside the claim (OUTSIDE).
        T2 = ('and', 'or', 'xor', 'not', 'override', 'compare')
        for ti_, t in enumerate(types):
            for t2i, t2 in enumerate(T2):
                if t2 == 'compare' and t != 'func':
                    continue          # Compare is only put behind a numeric FuncBlock
                n = 8 if t in ('and', 'or', 'xor', 'override', 'func') else 2
                c = (ti_ + t2i) % n
                out.append({'name': f'family2 {t}+{t2} chunk{c}/{n}', 'scenario': 'scen_family',
                            'params': {'typ': t, 'chunk': c, 'nchunks': n, 'second': t2, 'order_budget': 3, 'small': True}, 'cost': 50})
    return out
