"""
C18 - Repeat re-sends the latest event at the configured pace and count.

Real code executed symbolically (virtual-time loop, symbolic clock): Repeat.__init__/_event/
_maintask/start, AddonMainTask.start/stop_async, AddonAsync._task_monitor, Event.__init__
(implicit Repeat through repeat=...), Event.send, ExtEvent.send, run_forever/shutdown;
asyncio.Queue / wait_for run for real.

interval, the gaps between arrivals, the tail before the stop are symbolic reals: an arrival
before / exactly at / after a repetition instant are path regions decided by the solver.
Reference timeline from docs/sblocks1.rst.
"""
import asyncio
from symx.core import And_, Or_, Not_, Iff_, eq_, is_sym
from symx.edz import fresh_circuit, Probe, Settable
from symx import vloop
import edzed
from harness.C04 import drive

PROPERTY = 'C18'
LEVEL = 'model_checking'
BOUNDS = {'quick': {'arrivals': 2, 'count': [None, 0, 1, 3], 'gap': '0 <= gap <= 3.5 intervals',
                    'variants': ['explicit', 'implicit (Event(..., repeat=))', 'chain of two Repeat blocks']},
          'thorough': {'arrivals': 3, 'count': [None, 0, 1, 3], 'gap': '0 <= gap <= 3.5 intervals',
                       'variants': ['explicit', 'implicit', 'chain']}}
OUTSIDE = ["gaps longer than 3.5 intervals (unbounded number of repetitions)", "same-instant orders other than heapq's",
           "more arrivals than the bound", "chains longer than two"]
STUBS = ["virtual-time event loop (symx/vloop.py) with a symbolic clock"]
ASSUMPTIONS = ["at an exact tie between an arrival and a repetition instant the repetition of the OLD event may be "
               "delivered before the new event or be dropped; it must not follow the new event's repeat=0 "
               "(statement: 're-sends the most recent one')"]
EXPECT_LABELS = {'all': ['log', 'data-items', 'output', 'nothing-after-stop', 'ignored-type', 'noerror']}
EXPECT_NOTES = {'all': ['arrival-at-repetition', 'arrival-before-repetition', 'arrival-after-repetition',
                        'count-exhausted']}
FLOORS = {'quick': {'paths': 300, 'checks': 1500}, 'thorough': {'paths': 3000, 'checks': 15000}}


class RepRef:
    """Reference timeline of one Repeat block. deliveries: (time, value, repeat)"""

    def __init__(self, iv, count):
        self.iv, self.count = iv, count
        self.cur = None
        self.rep = 0
        self.next = None
        self.out = []          # deliveries
        self.tie_alternatives = []   # index in out of a repetition that may legally be absent (tie)

    def advance(self, now, env, strict=True):
        """deliver repetitions due before 'now' (strictly); returns True if one is due exactly now"""
        while self.next is not None:
            if self.next < now:
                env.note('arrival-after-repetition')
                self._repeat()
            elif self.next == now:
                env.note('arrival-at-repetition')
                return True
            else:
                env.note('arrival-before-repetition')
                return False
        return False

    def _repeat(self):
        self.rep += 1
        self.out.append((self.next, self.cur, self.rep))
        if self.count is None or self.rep < self.count:
            self.next = self.next + self.iv
        else:
            self.next = None

    def arrive(self, now, value):
        self.cur = value
        self.rep = 0
        self.out.append((now, value, 0))
        self.next = now + self.iv if (self.count is None or self.count > 0) else None


def match_logs(env, got, ref):
    """got: [(t, value, repeat)], ref.out with optional entries (tie_alternatives).
    Accepts: exact match, or match with any subset of the optional entries removed."""
    exp = ref.out
    opt = set(ref.tie_alternatives)
    # try all subsets of optional entries (at most a few)
    opts = sorted(opt)
    best = False
    for mask in range(1 << len(opts)):
        drop = {opts[i] for i in range(len(opts)) if mask >> i & 1}
        e = [x for i, x in enumerate(exp) if i not in drop]
        if len(e) != len(got):
            continue
        conds = []
        ok = True
        for g, x in zip(got, e):
            if g[1] != x[1] or g[2] != x[2]:
                ok = False
                break
            conds.append(eq_(g[0], x[0]))
        if ok:
            best = Or_(best, And_(*conds))
    return best


def scen_repeat(env, variant, count, nev, presched=False, stop_timeout=None):
    circ = fresh_circuit()
    loopref = []
    clock = lambda: loopref[0].time()
    outs = []           # the Repeat block's output at the moment of every delivery

    class OProbe(Probe):
        def _event(self, etype, data):
            blk = circ.findblock(data['source']) if isinstance(data.get('source'), str) else None
            outs.append(getattr(blk, 'output', None))
            return super()._event(etype, data)
    p = OProbe('p', clock=clock)
    iv = env.real('interval', 0, 100, lo_open=True)
    if variant == 'explicit':
        kw = {} if stop_timeout is None else {'stop_timeout': stop_timeout}   # 0 = 'disables the stop_async()'
        r = edzed.Repeat('r', dest=p, etype='x', interval=iv, count=count, **kw)
        send = lambda v, et: edzed.ExtEvent(r, et, source='_ext_sender').send(v, tag='keep')
        orig = '_ext_sender'
    else:   # implicit: created by Event(..., repeat=)
        ev = edzed.Event(p, 'x', repeat=iv, count=count)
        src = Settable('src', init='init', on_every_output=ev)
        r = ev._dest if not isinstance(ev._dest, str) else None
        send = lambda v, et: src.event('set', value=v)
        orig = 'src'
    ref = RepRef(iv, count)
    gaps = [env.real(f'gap{i}', 0) for i in range(nev)]
    tail = env.real('tail', 0)

    async def main():
        loop = asyncio.get_running_loop()
        loopref.append(loop)
        asyncio.create_task(circ.run_forever())
        await circ.wait_init()
        env.check('auto-name', r is not None and (variant == 'explicit' or r.name.startswith('_Repeat_')))
        env.check('output', r.output == 0)
        if variant == 'implicit':
            # the sender's initialisation is an output assignment: the first arrival (at start-up)
            ref.arrive(loop.time(), 'init')
        for g in gaps:
            env.assume(g <= iv * 3.5, 'gap <= 3.5 intervals')

        def step(i):
            now = loop.time()
            tie = ref.advance(now, env)
            matching = True
            if variant == 'explicit' and env.choose(3, f'type{i}') == 2:
                matching = False
            v = ('v', i)
            n0 = len(p.log)
            if not matching:
                ret = edzed.ExtEvent(r, 'other').send(v)
                env.check('ignored-type', ret is None and circ.error is None)
                return True
            if tie:
                # the old event's repetition is due at this very instant: it may have been delivered
                # already, be delivered before the new event, or be dropped - never after it
                ref._repeat()
                ref.tie_alternatives.append(len(ref.out) - 1)
            send(v, 'x')
            ref.arrive(now, v)
            env.check('sync-forward', len(p.log) >= n0 + 1 and p.log[-1][2]['repeat'] == 0
                      and p.log[-1][2]['value'] == v, info=lambda: p.log[n0:])
            env.check('output', r.output == 0)

        await drive(loop, gaps, step, presched)
        env.assume(tail <= iv * 3.5, 'tail <= 3.5 intervals')
        await asyncio.sleep(tail)
        now = loop.time()
        tie = ref.advance(now, env)
        if tie:
            ref._repeat()
            ref.tie_alternatives.append(len(ref.out) - 1)
        if ref.next is None and count is not None and ref.cur is not None:
            env.note('count-exhausted')
        await circ.shutdown()
        n0 = len(p.log)
        await asyncio.sleep(iv * 10)
        env.check('nothing-after-stop', len(p.log) == n0, info=lambda: p.log[n0:])
        env.check('noerror', isinstance(circ.error, asyncio.CancelledError), info=lambda: circ.error)
        left = [t.get_name() for t in asyncio.all_tasks() if t is not asyncio.current_task() and not t.done()]
        env.check('nothing-after-stop', left == [], info=lambda: left)
    vloop.run(main())
    got = [(t, d['value'], d['repeat']) for t, _, d in p.log]
    env.obs('repeat', variant, count, [(v, n) for _, v, n in got])
    env.check('log', match_logs(env, got, ref), info=lambda: (got, ref.out, ref.tie_alternatives))
    for t, et, d in p.log:
        env.check('data-items', et == 'x' and d['source'] == r.name and d['orig_source'] == orig
                  and (variant != 'explicit' or d.get('tag') == 'keep')
                  and set(d) >= {'value', 'source', 'orig_source', 'repeat'}, info=lambda: d)
    if got:
        # output = last repeat number (observed before the stop)
        env.check('output-last', r.output == got[-1][2], info=lambda: (r.output, got[-1]))
    # ... at every delivery, repetitions included: the output already shows the number the delivery carries
    env.check('output-at-delivery', outs == [n for _, _, n in got], info=lambda: (outs, got))
    # repetitions carry exactly the items of the forwarded original (only the number differs)
    first = {}
    same = True
    for t, et, d in p.log:
        items = {k: v for k, v in d.items() if k != 'repeat'}
        if d['repeat'] == 0:
            first[d['value']] = items
        else:
            same = same and first.get(d['value']) == items
    env.check('data-items', same, info=lambda: p.log)


def scen_chain(env, c1, c2):
    """r1 -> r2 -> probe : every delivery of r1 is an arrival at r2"""
    circ = fresh_circuit()
    loopref = []
    p = Probe('p', clock=lambda: loopref[0].time())
    iv1 = env.real('interval1', 0, 100, lo_open=True)
    iv2 = env.real('interval2', 0, 100, lo_open=True)
    r2 = edzed.Repeat('r2', dest=p, etype='x', interval=iv2, count=c2)
    r1 = edzed.Repeat('r1', dest='r2', etype='x', interval=iv1, count=c1)
    ref1, ref2 = RepRef(iv1, c1), RepRef(iv2, c2)
    tail = env.real('tail', 0)
    state = {}

    async def main():
        loop = asyncio.get_running_loop()
        loopref.append(loop)
        asyncio.create_task(circ.run_forever())
        await circ.wait_init()
        try:
            edzed.ExtEvent(r1, 'x', source='_ext_s').send('A')
        except Exception as err:
            state['send_error'] = err
        ref1.arrive(loop.time(), 'A')
        env.assume(tail <= iv1 * 2.5)
        env.assume(tail <= iv2 * 3.5)
        await asyncio.sleep(tail)
        state['now'] = loop.time()
        try:
            await circ.shutdown()
        except Exception as err:
            state['shutdown_error'] = err
    vloop.run(main())
    env.check('chain-noerror', not state.get('send_error') and not state.get('shutdown_error')
              and isinstance(circ.error, asyncio.CancelledError), info=lambda: (state, circ.error))
    if state.get('send_error') or state.get('shutdown_error'):
        return
    now = state['now']
    tie1 = ref1.advance(now, env)
    # feed r1's deliveries into r2's reference in time order
    for (t, v, n) in ref1.out:
        tie = ref2.advance(t, env)
        if tie:
            ref2._repeat()
            ref2.tie_alternatives.append(len(ref2.out) - 1)
        ref2.arrive(t, v)
    tie2 = ref2.advance(now, env)
    got = [(t, d['value'], d['repeat']) for t, _, d in p.log]
    if tie1 or tie2:
        env.note('chain-tie-at-stop')
        return          # deliveries due exactly at the stop instant: either outcome is legal
    env.obs('chain', c1, c2, [(v, n) for _, v, n in got])
    env.check('log', match_logs(env, got, ref2), info=lambda: (got, ref2.out))
    for t, et, d in p.log:
        env.check('data-items', d['source'] == 'r2' and d['orig_source'] == 'r1', info=lambda: d)


def shards(tier):
    nev = BOUNDS[tier]['arrivals']
    out = []
    for variant in ('explicit', 'implicit'):
        for count in (None, 0, 1, 3):
            for ps in (False, True):
                out.append({'name': f'{variant} count={count} n={nev}' + (' presched' if ps else ''), 'scenario': 'scen_repeat',
                            'params': {'variant': variant, 'count': count, 'nev': nev, 'presched': ps},
                            'cost': 10 if count in (None, 3) else 2})
    for count in (None, 3):
        out.append({'name': f'explicit count={count} n=1 stop_timeout=0', 'scenario': 'scen_repeat',
                    'params': {'variant': 'explicit', 'count': count, 'nev': 1, 'stop_timeout': 0}})
    for c1 in (None, 0, 1):
        for c2 in (None, 0, 1, 3):
            out.append({'name': f'chain c1={c1} c2={c2}', 'scenario': 'scen_chain', 'params': {'c1': c1, 'c2': c2}})
    return out
