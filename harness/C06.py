"""
C06 - saved state always matches the last completed event and survives a restart.

Real code executed symbolically (virtual-time loop, symbolic loop clock AND symbolic wall clock):
AddonPersistence.__init__/event/save_persistent_state/init_from_persistent_data,
Circuit._check_persistent_data, run_forever (save at stop, stop time stamp), init_sblock,
FSM.get_state/_restore_state/_set_timer, utils.looptimes, Counter/Input/Timer/InputExp
_restore_state.

Run 1: a history of events at symbolic instants with symbolic data; the storage is snapshot
(deep copy = what a real storage would have pickled) after init, after every event, after the
last waiting period, after the regular stop and after a failed start-up: the crash points.
Run 2: a fresh circuit is started from a solver-chosen snapshot after a symbolic downtime, with
'expiration' None / <= 0 / symbolic.  A reference model (docs/blocks.rst, FSM.rst) says what the
storage must contain at each point and whether / how the block must be restored.
"""
import asyncio
import copy
from symx.core import And_, Or_, Not_, Iff_, If_, eq_, is_sym
from symx.edz import fresh_circuit, Probe, WallClock, live_block_timers, Settable
from symx import vloop
import edzed
from edzed import INF_TIME, Goto, UNDEF
from harness.C04 import FsmRef, clamp

PROPERTY = 'C06'
LEVEL = 'model_checking'
BOUNDS = {'quick': {'events': 2, 'fsm_events': 1, 'blocks': ['Input', 'Counter', 'timed FSM', 'Timer', 'InputExp', 'TimeDate/TimeSpan (concrete configurations)'],
                    'crash points': 'after init / each event / final wait / regular stop / failed start',
                    'downtime': 'symbolic >= 0', 'expiration': [None, 0, 'symbolic > 0']},
          'thorough': {'events': 3, 'fsm_events': 2, 'blocks': ['Input', 'Counter', 'timed FSM', 'Timer', 'InputExp'],
                       'crash points': 'as quick', 'downtime': 'symbolic >= 0', 'expiration': [None, 0, 'symbolic > 0']}}
OUTSIDE = ["TimeDate / TimeSpan persistence with symbolic configurations (covered with concrete configurations only: "
           "C-level datetime objects cannot carry symbolic fields)", "storage back-ends raising errors", "longer histories",
           "wall-clock jumps during a run (C07)"]
STUBS = ["virtual-time loop with symbolic clock", "time.time() of edzed.addons/fsm/simulator/utils.looptimes = "
         "EPOCH + loop time + symbolic offset (downtime)", "deep copy of the dict = the pickling of a real storage"]
ASSUMPTIONS = ["a crash loses nothing that was assigned to the storage mapping (the storage itself is durable)"]
EXPECT_LABELS = {'all': ['harmless-error', 'saved-after-init', 'saved-after-event', 'saved-at-stop', 'stop-time', 'unused-removed',
                         'restore-decision', 'restored-state', 'restored-timer-absolute', 'no-entry-actions',
                         'not-saved-after-handler-error', 'failed-start-nothing-written', 'nosync-not-saved']}
EXPECT_NOTES = {'all': ['stale-stop-time-in-crash-snapshot', 'harmless-error-before-a-saved-event', 'restored', 'discarded-expired', 'discarded-timer-ran-out', 'restart-from-crash-point',
                        'restart-from-regular-stop', 'timer-pending-at-snapshot', 'rejected-timed-event-before-snapshot']}
FLOORS = {'quick': {'paths': 500, 'checks': 3000}, 'thorough': {'paths': 5000, 'checks': 30000}}

STALE = {"<Input 'gone'>": 123, 'edzed-custom': 'keep me'}


def state_eq(a, b):
    """structural equality of states (tuples / dicts / scalars) without forking"""
    if isinstance(a, (tuple, list)) and isinstance(b, (tuple, list)):
        if len(a) != len(b):
            return False
        return And_(*[state_eq(x, y) for x, y in zip(a, b)])
    if isinstance(a, dict) and isinstance(b, dict):
        if set(a) != set(b):
            return False
        return And_(*[state_eq(a[k], b[k]) for k in a])
    if a is None or b is None:
        return a is b
    return eq_(a, b)


def snap(store):
    return copy.deepcopy(dict(store))


class PickleStore(dict):
    """dict that stores a deep copy of every value, like shelve/pickle-backed storages do
    (FSM.get_state() hands out its live sdata dict)."""

    def __setitem__(self, k, v):
        super().__setitem__(k, copy.deepcopy(v))


# ---------------------------------------------------------------------------------------------
# simple blocks: Input / Counter  (state == output)

def scen_simple(env, kind, sync, nev, snap_idx=None, ek=None):
    clock = WallClock()
    with clock:
        _simple(env, kind, sync, nev, clock, snap_idx, ek)


def mk_simple(kind, sync, exp_kw, thr=None):
    if kind == 'input':
        kw = {}
        if thr is not None:
            kw['check'] = lambda v: v >= thr
        return edzed.Input('blk', persistent=True, sync_state=sync, initdef=7, **exp_kw, **kw)
    return edzed.Counter('blk', persistent=True, sync_state=sync, initdef=7, modulo=None, **exp_kw)


def _simple(env, kind, sync, nev, clock, snap_idx, ek0):
    circ = fresh_circuit()
    store = PickleStore(STALE)
    if env.choose(2, 'old_stop_time'):
        # the storage comes from an earlier session: crash snapshots of this run carry THAT stop time
        store['edzed-stop-time'] = clock.EPOCH - 500.0
        env.note('stale-stop-time-in-crash-snapshot')
    circ.set_persistent_data(store)
    thr = env.int('check_min', None, 7) if kind == 'input' else None     # initdef 7 must pass the check
    blk = mk_simple(kind, sync, {}, thr)
    other = Settable('other', init=0)
    # a second persistent block with the opposite sync_state: saved at init and at the stop 'together'
    cnt2 = edzed.Counter('cnt2', persistent=True, sync_state=not sync, initdef=40)
    snaps = []
    ref = {'val': 7, 'failed': False}
    gaps = [env.real(f'gap{i}', 0, 100) for i in range(nev)]

    async def run1():
        loop = asyncio.get_running_loop()
        asyncio.create_task(circ.run_forever())
        await circ.wait_init()
        env.check('unused-removed', "<Input 'gone'>" not in store and store.get('edzed-custom') == 'keep me',
                  info=lambda: store)
        env.check('saved-after-init', state_eq(store.get(blk.key), 7), info=lambda: store)
        env.check('saved-after-init', state_eq(store.get(cnt2.key), 40), info=lambda: store)
        snaps.append(('init', snap(store), 7))
        cnt2.event('inc')
        env.check('saved-after-event' if not sync else 'nosync-not-saved', state_eq(store.get(cnt2.key), 41 if not sync else 40),
                  info=lambda: store)
        for i in range(nev):
            await asyncio.sleep(gaps[i])
            if kind == 'input':
                et = env.pick(['put', 'put-fail', 'unknown', 'badparam'], f'ev{i}')
            else:
                et = env.pick(['inc', 'put', 'fail', 'unknown', 'badparam'], f'ev{i}')
            v = env.int(f'v{i}')
            before = snap(store)
            if et in ('unknown', 'badparam'):
                # errors that are only reported to the caller: nothing changes, and saving goes on afterwards
                env.note('harmless-error-before-a-saved-event')
                try:
                    blk.event('no_such_event') if et == 'unknown' else blk.event('put')
                    env.check('harmless-error', False)
                except (edzed.EdzedUnknownEvent, TypeError):
                    pass
                env.check('harmless-error', circ.error is None and state_eq(store.get(blk.key), before.get(blk.key)),
                          info=lambda: (circ.error, store, before))
                continue
            try:
                if et == 'put':
                    r = blk.event('put', value=v)
                    if kind == 'input':
                        if r:
                            ref['val'] = v
                    else:
                        ref['val'] = v
                elif et == 'inc':
                    blk.event('inc', amount=v)
                    ref['val'] = ref['val'] + v
                elif et == 'put-fail':
                    blk.event('put', value=None)        # None >= thr raises TypeError inside the handler
                else:
                    blk.event('inc', amount=None)       # int + None raises inside the handler
            except TypeError:
                ref['failed'] = True
            if ref['failed']:
                env.note('handler-error')
                env.check('not-saved-after-handler-error', state_eq(store.get(blk.key), before.get(blk.key)),
                          info=lambda: (store, before))
                break
            if sync:
                env.check('saved-after-event', state_eq(store.get(blk.key), ref['val']),
                          info=lambda: (store, ref))
                snaps.append((f'event{i}', snap(store), ref['val']))
            else:
                env.check('nosync-not-saved', state_eq(store.get(blk.key), 7))
        before_stop = snap(store)
        try:
            await circ.shutdown()
        except edzed.EdzedCircuitError:
            pass
        if ref['failed']:
            env.check('not-saved-after-handler-error', state_eq(store.get(blk.key), before_stop.get(blk.key))
                      and True, info=lambda: (store, before_stop))
        else:
            env.check('saved-at-stop', And_(state_eq(store.get(blk.key), ref['val']), state_eq(store.get(cnt2.key), 41)),
                      info=lambda: (store, ref))
            env.check('stop-time', isinstance(store.get('edzed-stop-time'), float)
                      and bool(eq_(store['edzed-stop-time'], clock.time())), info=lambda: store)
            snaps.append(('stop', snap(store), ref['val']))
        clock.frozen_loop_time = loop.time()
    vloop.run(run1())
    if ref['failed']:
        return
    t_end1 = clock.EPOCH + clock.frozen_loop_time
    # ---- run 2: restart from a chosen snapshot -------------------------------------------------
    if snap_idx is None:
        which = env.choose(len(snaps), 'snapshot')
    elif snap_idx == -1:
        which = len(snaps) - 1
    elif snap_idx >= len(snaps) - 1:
        return
    else:
        which = snap_idx
    tag, storage, saved_val = snaps[which]
    env.note('restart-from-regular-stop' if tag == 'stop' else 'restart-from-crash-point')
    down = env.real('downtime', 0, 10000)
    ek = ek0 or env.pick(['none', 'zero', 'sym'], 'expiration')
    exp = None if ek == 'none' else (env.real('expiration_le0', -100, 0) if ek == 'zero'
                                     else env.real('expiration', 0, 10000, lo_open=True))
    circ2 = fresh_circuit()
    store2 = PickleStore(storage)
    store2["<Counter 'old'>"] = 5
    # an entry of a block with the same NAME but of another type: not this block's state
    other_type_key = "<Counter 'blk'>" if kind == 'input' else "<Input 'blk'>"
    store2[other_type_key] = 99
    circ2.set_persistent_data(store2)
    blk2 = mk_simple(kind, sync, {'expiration': exp}, thr)
    Settable('other', init=0)
    cnt2b = edzed.Counter('cnt2', persistent=True, sync_state=not sync, initdef=40)
    saved_cnt2 = storage.get(cnt2.key)
    clock.offset = (t_end1 - clock.EPOCH) + down      # wall clock keeps running while the loop restarts at 0

    async def run2():
        asyncio.create_task(circ2.run_forever())
        await circ2.wait_init()
        ts = storage.get('edzed-stop-time')
        now = clock.time()
        if exp is None:
            restored = True
        elif ek == 'zero':
            restored = False
        else:
            restored = True if ts is None else Not_(ts + exp < now)
        if kind == 'input':
            # the restored value passes through the same validation
            restored = And_(restored, saved_val >= thr)
        expect = If_(restored, saved_val, 7) if is_sym(restored) else (saved_val if restored else 7)
        env.check('restore-decision', eq_(blk2.output, expect), info=lambda: (tag, blk2.output, saved_val, exp, down))
        env.check('restored-state', eq_(blk2.get_state(), expect))
        if env.holds(restored if not isinstance(restored, bool) else restored):
            env.note('restored')
        elif env.holds(Not_(restored)):
            env.note('discarded-expired')
        env.check('unused-removed', "<Counter 'old'>" not in store2 and other_type_key not in store2
                  and store2.get('edzed-custom') == 'keep me', info=lambda: store2)
        # the second block (no expiration) is restored from the same storage, whatever happens to the first one
        env.check('restored-state', eq_(cnt2b.output, saved_cnt2), info=lambda: ('cnt2', cnt2b.output, saved_cnt2))
        # after the initialisation the storage holds the state of run 2 again
        env.check('saved-after-init', And_(state_eq(store2.get(blk2.key), blk2.output), state_eq(store2.get(cnt2b.key), cnt2b.output)),
                  info=lambda: store2)
        await circ2.shutdown()
    vloop.run(run2())


# ---------------------------------------------------------------------------------------------
# timed FSM (the machine of C04)

def make_fsm_class(d0, calls):
    class TF(edzed.FSM):
        STATES = ['idle']
        TIMERS = {'armed': (d0, 'tick'), 'cool': (2.0, Goto('idle'))}
        EVENTS = [('arm', None, 'armed'), ('tick', ['armed'], 'cool'),
                  ('disarm', ['armed', 'cool'], 'idle'), ('poke', None, None), ('boom', None, 'idle')]

        def enter_armed(self):
            calls.append('enter_armed')
            self.sdata['n'] = edzed.fsm_event_data.get().get('n')

        def enter_idle(self):
            calls.append('enter_idle')
            if 'explode' in edzed.fsm_event_data.get():
                raise RuntimeError("entry action failed")

        def enter_cool(self):
            calls.append('enter_cool')
    return TF


def scen_fsm(env, sync, nev, ev0=None, snap_idx=None, ek=None):
    clock = WallClock()
    with clock:
        _fsm(env, sync, nev, ev0, clock, snap_idx, ek)


def _fsm(env, sync, nev, ev0, clock, snap_idx, ek0):
    circ = fresh_circuit()
    store = PickleStore(STALE)
    circ.set_persistent_data(store)
    d0 = env.real('d0', 0, 50, lo_open=True)
    accept = env.bool('accept_tick')
    calls = []
    TF = make_fsm_class(d0, calls)
    loopref = []
    fsm = TF('fsm', persistent=True, sync_state=sync, cond_tick=lambda: accept)
    ref = FsmRef(d0, False, None, accept)
    ref.sdata = {}
    gaps = [env.real(f'gap{i}', 0, 100) for i in range(nev)]
    final_gap = env.real('final_gap', 0, 100)
    snaps = []       # (tag, storage, (state, wall expiry or None, sdata))
    st = {'failed': False, 'rejected': False}

    def ref_state():
        wall = None if ref.expiry is None else clock.EPOCH + ref.expiry
        return (ref.state, wall, dict(ref.sdata))

    def sync_ref(now):
        while ref.expiry is not None:
            if ref.expiry < now:
                pass
            elif ref.expiry == now:
                if not (len(calls) > st['calls_ref'] or (ref.state == 'armed' and not accept
                                                            and not live_block_timers(loopref[0], circ))):
                    break
            else:
                break
            was_armed = ref.state == 'armed'
            ref.fire()
            if was_armed and ref.state == 'armed':
                st['rejected'] = True
            if ref.state == 'cool':
                st['calls_ref'] += 1
            elif ref.state == 'idle':
                st['calls_ref'] += 1

    async def run1():
        loop = asyncio.get_running_loop()
        loopref.append(loop)
        asyncio.create_task(circ.run_forever())
        await circ.wait_init()
        ref._enter(loop.time(), 'idle', first=True)
        st['calls_ref'] = 1
        env.check('saved-after-init', state_eq(store.get(fsm.key), ref_state()), info=lambda: store)
        snaps.append(('init', snap(store), ref_state()))
        for i in range(nev):
            await asyncio.sleep(gaps[i])
            now = loop.time()
            sync_ref(now)
            et = ev0 if (i == 0 and ev0) else env.pick(['arm', 'disarm', 'poke', 'boom'], f'ev{i}')
            data = {}
            if et == 'arm':
                n = env.int(f'n{i}')
                data['n'] = n
                if env.choose(2, f'with_duration{i}'):
                    data['duration'] = env.real(f'd2_{i}', 0, 50, lo_open=True)
            before = snap(store)
            if et == 'boom':
                try:
                    fsm.event('boom', explode=1)
                except RuntimeError:
                    pass
                st['failed'] = True
                env.note('handler-error')
                env.check('not-saved-after-handler-error', state_eq(store.get(fsm.key), before.get(fsm.key)),
                          info=lambda: (store, before))
                break
            fsm.event(et, **data)
            if et == 'arm':
                ref.event(now, 'arm', data.get('duration'))
                ref.sdata = {'n': data['n']}
                st['calls_ref'] += 1
            elif et == 'disarm':
                if ref.event(now, 'disarm'):
                    st['calls_ref'] += 1
            if sync:
                env.check('saved-after-event', state_eq(store.get(fsm.key), ref_state()),
                          info=lambda: (et, store.get(fsm.key), ref_state()))
                snaps.append((f'event{i}', snap(store), ref_state()))
            else:
                env.check('nosync-not-saved', state_eq(store.get(fsm.key), before.get(fsm.key)))
        if not st['failed']:
            await asyncio.sleep(final_gap)
            sync_ref(loop.time())
            if sync:
                # timed events are events too: the storage follows them
                env.check('saved-after-event', state_eq(store.get(fsm.key), ref_state()),
                          info=lambda: ('after final wait', store.get(fsm.key), ref_state()))
                snaps.append(('final-wait', snap(store), ref_state()))
        before_stop = snap(store)
        ref_before_stop = ref_state()
        try:
            await circ.shutdown()
        except edzed.EdzedCircuitError:
            pass
        if st['failed']:
            env.check('not-saved-after-handler-error', state_eq(store.get(fsm.key), before_stop.get(fsm.key)),
                      info=lambda: (store, before_stop))
        else:
            env.check('saved-at-stop', state_eq(store.get(fsm.key), ref_before_stop),
                      info=lambda: (store.get(fsm.key), ref_before_stop))
            env.check('stop-time', isinstance(store.get('edzed-stop-time'), float)
                      and bool(eq_(store['edzed-stop-time'], clock.time())))
            snaps.append(('stop', snap(store), ref_before_stop))
        clock.frozen_loop_time = loop.time()
    vloop.run(run1())
    if st['failed']:
        return
    t_end1 = clock.EPOCH + clock.frozen_loop_time
    # ---- run 2 -----------------------------------------------------------------------------
    if snap_idx is None:
        which = env.choose(len(snaps), 'snapshot')
    elif snap_idx == -1:
        which = len(snaps) - 1
    elif snap_idx >= len(snaps) - 1:
        return
    else:
        which = snap_idx
    tag, storage, (s_state, s_wall, s_sdata) = snaps[which]
    env.note('restart-from-regular-stop' if tag == 'stop' else 'restart-from-crash-point')
    if s_wall is not None:
        env.note('timer-pending-at-snapshot')
    if st['rejected'] and s_state == 'armed' and s_wall is None:
        env.note('rejected-timed-event-before-snapshot')
    down = env.real('downtime', 0, 200)
    ek = ek0 or env.pick(['none', 'zero', 'sym'], 'expiration')
    exp = None if ek == 'none' else (0.0 if ek == 'zero' else env.real('expiration', 0, 200, lo_open=True))
    circ2 = fresh_circuit()
    store2 = PickleStore(storage)
    circ2.set_persistent_data(store2)
    calls2 = []
    TF2 = make_fsm_class(d0, calls2)
    probe = Probe('probe', clock=lambda: clock.time())
    fsm2 = TF2('fsm', persistent=True, sync_state=sync, cond_tick=lambda: accept, expiration=exp,
               on_enter_cool=edzed.Event(probe, 'enter'), on_enter_idle=edzed.Event(probe, 'enter'),
               on_enter_armed=edzed.Event(probe, 'enter'))
    clock.offset = (t_end1 - clock.EPOCH) + down
    res = {}

    async def run2():
        loop = asyncio.get_running_loop()
        asyncio.create_task(circ2.run_forever())
        await circ2.wait_init()
        now = clock.time()
        ts = storage.get('edzed-stop-time')
        if exp is None:
            fresh = True
        elif ek == 'zero':
            fresh = False
        else:
            fresh = True if ts is None else Not_(ts + exp < now)
        alive = True if s_wall is None else (s_wall - now > 0)
        restored = And_(fresh, alive)
        res['restored'] = bool(restored)          # forks: the documented decision
        if res['restored']:
            env.note('restored')
            env.check('restore-decision', fsm2.state == s_state, info=lambda: (tag, fsm2.state, s_state, s_wall, now))
            env.check('restored-state', fsm2.output == s_state and state_eq(fsm2.sdata, s_sdata),
                      info=lambda: (fsm2.sdata, s_sdata))
            env.check('no-entry-actions', calls2 == [] and probe.log == [], info=lambda: (calls2, probe.log))
            tm = live_block_timers(loop, circ2)
            if s_wall is not None:
                env.check('restored-timer-absolute', len(tm) == 1 and bool(
                    eq_(edzed.utils.looptimes.loop_to_unixtime(tm[0].when()), s_wall)),
                    info=lambda: (tm, s_wall))
                # let it fire: same absolute time as before the restart
                await asyncio.sleep(s_wall - now)
                await asyncio.sleep(0)
                if s_state == 'cool' or accept:
                    env.check('restored-timer-fires', len(probe.log) >= 1 and bool(eq_(probe.log[0][0], s_wall)),
                              info=lambda: (probe.log, s_wall))
            else:
                env.check('restored-timer-absolute', len(tm) == 0, info=lambda: tm)
        else:
            if env.holds(Not_(alive)) if not isinstance(alive, bool) else not alive:
                env.note('discarded-timer-ran-out')
            else:
                env.note('discarded-expired')
            env.check('restore-decision', fsm2.state == 'idle' and calls2 == ['enter_idle'],
                      info=lambda: (tag, fsm2.state, calls2, s_state, s_wall, now))
        await circ2.shutdown()
    vloop.run(run2())


def scen_restore_feedback(env, reaction):
    """An event reaches the FSM while it is being restored: its first output (previous = UNDEF) is forwarded to a guard
    block whose handler answers at once with an event to the FSM.  The event is an ordinary completed event: afterwards
    the storage holds exactly the FSM's current state, and the one pending timer is the one the storage describes."""
    clock = WallClock()
    with clock:
        d0 = env.real('d0', 0, 50, lo_open=True)
        rem = env.real('remaining', 0, 50, lo_open=True)
        d2 = env.real('d2', 0, 50, lo_open=True)
        n0, n1 = env.int('n0'), env.int('n1')
        clock.offset = 1000.0
        s_wall = clock.EPOCH + clock.offset + rem
        storage = {"<TF 'fsm'>": ('armed', s_wall, {'n': n0}), 'edzed-stop-time': clock.EPOCH + 990.0}
        circ = fresh_circuit()
        store = PickleStore(storage)
        circ.set_persistent_data(store)
        calls = []
        TF = make_fsm_class(d0, calls)
        probe = Probe('probe', clock=lambda: clock.time())

        class Guard(edzed.SBlock):
            def init_regular(self):
                self.set_output(0)

            def _event_trip(self, **data):
                calls.append('trip')
                if reaction == 'disarm':
                    return fsm.event('disarm')
                if reaction == 'arm':
                    return fsm.event('arm', n=n1)
                if reaction == 'arm-duration':
                    return fsm.event('arm', n=n1, duration=d2)
                if reaction == 'poke':
                    return fsm.event('poke')
                return None
        Guard('guard')
        fsm = TF('fsm', persistent=True, sync_state=True, on_enter_cool=edzed.Event(probe, 'enter'),
                 on_enter_idle=edzed.Event(probe, 'enter'), on_enter_armed=edzed.Event(probe, 'enter'),
                 on_output=edzed.Event('guard', 'trip', efilter=lambda data: data['previous'] is UNDEF))
        assert fsm.key == "<TF 'fsm'>"

        async def run():
            loop = asyncio.get_running_loop()
            asyncio.create_task(circ.run_forever())
            await circ.wait_init()
            now = clock.time()
            env.check('feedback-delivered', calls[:1] == ['trip'] or 'trip' in calls, info=lambda: calls)
            if reaction == 'disarm':
                want = ('idle', None, {'n': n0})
            elif reaction == 'arm':
                want = ('armed', now + d0, {'n': n1})
            elif reaction == 'arm-duration':
                want = ('armed', now + d2, {'n': n1})
            else:
                want = ('armed', s_wall, {'n': n0})
            env.check('restore-decision', fsm.state == want[0], info=lambda: (reaction, fsm.state, calls))
            env.check('saved-after-init', state_eq(store.get(fsm.key), want), info=lambda: (reaction, store.get(fsm.key), want))
            env.check('saved-is-current-state', state_eq(store.get(fsm.key), fsm.get_state()),
                      info=lambda: (store.get(fsm.key), fsm.get_state()))
            tm = live_block_timers(loop, circ)
            if want[1] is None:
                env.check('restored-timer-absolute', len(tm) == 0, info=lambda: tm)
            else:
                env.check('restored-timer-absolute', len(tm) == 1 and bool(
                    eq_(edzed.utils.looptimes.loop_to_unixtime(tm[0].when()), want[1])), info=lambda: (tm, want))
                n_before = len(probe.log)
                await asyncio.sleep(want[1] - now)
                await asyncio.sleep(0)
                env.check('restored-timer-fires', len(probe.log) == n_before + 1 and bool(eq_(probe.log[-1][0], want[1]))
                          and fsm.state == 'cool', info=lambda: (probe.log, want, fsm.state))
                env.check('saved-after-event', state_eq(store.get(fsm.key), fsm.get_state()) and fsm.state == 'cool',
                          info=lambda: (store.get(fsm.key), fsm.get_state()))
            await circ.shutdown()
        vloop.run(run())


def scen_cleanup_event(env, kind, late_event):
    """An event reaches a persistent block DURING the clean-up of a regular stop (the on_success event of an output
    block's stop_data), after the block itself may have been stopped (set order: both orders explored).  What a restart
    finds in the storage must still be a state the block can be restored to 'with its timer expiring at the same
    absolute time as before': the state saved at the stop, or the state after that last event - never a timed state
    that has lost its timer."""
    from harness.simdrive import OrderedSet
    from edzed import simulator
    clock = WallClock()
    with clock:
        circ = fresh_circuit()
        store = PickleStore({})
        circ.set_persistent_data(store)
        d0 = env.real('d0', 0, 50, lo_open=True)
        t_stop = env.real('t_stop', 0, 60)
        first = env.pick(['blk', 'of'], 'stopped_first')
        calls = []
        if kind == 'fsm':
            TF = make_fsm_class(d0, calls)
            blk = TF('blk', persistent=True)
            arm = lambda: blk.event('arm', n=1)
            timed_state = 'armed'
        else:
            blk = edzed.Timer('blk', t_on=d0, persistent=True, restartable=(late_event != 'start-refused'))
            arm = lambda: blk.event('start')
            timed_state = 'on'
        et = {'poke': 'poke', 'disarm': 'disarm', 'start': 'start', 'start-refused': 'start', 'stop': 'stop'}[late_event]
        edzed.OutputFunc('of', func=lambda v: None, stop_data={'value': 'OF-STOP'}, on_success=edzed.Event('blk', et), on_error=None)
        res = {}

        async def main():
            loop = asyncio.get_running_loop()
            asyncio.create_task(circ.run_forever())
            await circ.wait_init()
            arm()
            res['expiry'] = clock.time() + d0
            await asyncio.sleep(t_stop)
            res['before'] = blk.get_state() if blk.is_initialized() else None
            res['state_before'] = blk.state
            await circ.shutdown()
        OrderedSet.front = [first]
        simulator.set = OrderedSet
        try:
            vloop.run(main())
        finally:
            del simulator.set
            OrderedSet.front = []
        saved = store.get(blk.key)
        env.note('persistent-fsm-stopped-before-the-output-block' if first == 'blk' else 'output-block-stopped-first')
        still_timed = res['state_before'] == timed_state
        if still_timed:
            env.note('timed-state-at-stop')
        # a saved timed state always carries its timer
        ok = saved is not None and not (saved[0] == timed_state and saved[1] is None)
        env.check('saved-at-stop', ok, info=lambda: (first, late_event, res['before'], saved))
        if still_timed and saved is not None and saved[0] == timed_state:
            if late_event in ('poke', 'start-refused'):
                # the late event is refused by the table / the condition: the timer is the one started before
                env.check('saved-at-stop', state_eq(saved[1], res['expiry']), info=lambda: (saved, res['expiry']))


# ---------------------------------------------------------------------------------------------
# Timer and InputExp (restore of derived FSM blocks) - one event, restart

def scen_derived(env, kind):
    clock = WallClock()
    with clock:
        _derived(env, kind, clock)


def _derived(env, kind, clock):
    circ = fresh_circuit()
    store = PickleStore()
    circ.set_persistent_data(store)
    d = env.real('duration', 0, 50, lo_open=True)
    if kind == 'timer':
        blk = edzed.Timer('blk', t_on=d, persistent=True)
        fire = lambda b: b.event('start')
        active, idle_out, act_out = 'on', False, True
    else:
        blk = edzed.InputExp('blk', duration=d, expired='EXP', persistent=True)
        val = env.int('value')
        fire = lambda b: b.event('put', value=val)
        active, idle_out, act_out = 'valid', 'EXP', val
    g1 = env.real('gap', 0, 100)
    info = {}

    async def run1():
        loop = asyncio.get_running_loop()
        asyncio.create_task(circ.run_forever())
        await circ.wait_init()
        fire(blk)
        info['t_fire'] = clock.time()
        await asyncio.sleep(g1)
        info['state'] = blk.state
        st = store.get(blk.key)
        exp_wall = info['t_fire'] + d
        pending = blk.state == active
        env.check('saved-after-event', st is not None and st[0] == blk.state and (
            bool(eq_(st[1], exp_wall)) if pending else st[1] is None), info=lambda: (st, exp_wall))
        info['snap'] = snap(store)
        info['pending'] = pending
        info['exp_wall'] = exp_wall if pending else None
        await circ.shutdown()
        env.check('saved-at-stop', state_eq(store.get(blk.key), info['snap'].get(blk.key)))
        env.check('stop-time', isinstance(store.get('edzed-stop-time'), float))
        info['stop'] = snap(store)
        clock.frozen_loop_time = loop.time()
    vloop.run(run1())
    t_end1 = clock.EPOCH + clock.frozen_loop_time
    storage = info['stop'] if env.choose(2, 'from_stop') else info['snap']
    down = env.real('downtime', 0, 200)
    circ2 = fresh_circuit()
    store2 = PickleStore(storage)
    circ2.set_persistent_data(store2)
    probe = Probe('probe', clock=lambda: clock.time())
    if kind == 'timer':
        blk2 = edzed.Timer('blk', t_on=d, persistent=True, on_output=edzed.Event(probe, 'out'))
    else:
        blk2 = edzed.InputExp('blk', duration=d, expired='EXP', persistent=True, on_output=edzed.Event(probe, 'out'))
    clock.offset = (t_end1 - clock.EPOCH) + down

    async def run2():
        loop = asyncio.get_running_loop()
        asyncio.create_task(circ2.run_forever())
        await circ2.wait_init()
        now = clock.time()
        if info['pending']:
            alive = bool(info['exp_wall'] - now > 0)      # forks
            if alive:
                env.note('restored')
                env.note('timer-pending-at-snapshot')
                env.check('restored-state', blk2.state == active and bool(eq_(blk2.output, act_out)),
                          info=lambda: (blk2.state, blk2.output))
                tm = live_block_timers(loop, circ2)
                env.check('restored-timer-absolute', len(tm) == 1 and bool(
                    eq_(edzed.utils.looptimes.loop_to_unixtime(tm[0].when()), info['exp_wall'])))
                await asyncio.sleep(info['exp_wall'] - now)
                await asyncio.sleep(0)
                env.check('restored-timer-fires', blk2.state != active and bool(eq_(probe.log[-1][0], info['exp_wall'])),
                          info=lambda: (probe.log, info['exp_wall']))
            else:
                env.note('discarded-timer-ran-out')
                env.check('restore-decision', blk2.state != active and blk2.output == idle_out,
                          info=lambda: (blk2.state, blk2.output))
        else:
            env.check('restored-state', blk2.state == info['state'] and blk2.output == idle_out)
            env.check('restored-timer-absolute', not live_block_timers(loop, circ2))
        await circ2.shutdown()
    vloop.run(run2())


# ---------------------------------------------------------------------------------------------
class BadStart(edzed.SBlock):
    def start(self):
        super().start()
        raise RuntimeError("start() failed")

    def init_regular(self):
        self.set_output(0)


def scen_failed_start(env, kind):
    """start-up (the start() phase / name resolution) fails: nothing is written.
    'start-up' is meant as in C08's list "start-up, initialisation, evaluation, ...": the phase
    guarded by run_forever's start_ok flag; a failing *initialisation* is a different phase and
    the statement says nothing about the storage then."""
    clock = WallClock()
    with clock:
        circ = fresh_circuit()
        prefilled = env.choose(2, 'prefilled')
        store = {'edzed-custom': 'keep me', "<Input 'blk'>": 5} if prefilled else {}
        before = snap(store)
        circ.set_persistent_data(store)
        order = env.choose(2, 'order')
        if order:
            BadStart('bad') if kind == 'start' else None
        blk = edzed.Input('blk', persistent=True, initdef=1)
        cnt = edzed.Counter('cnt', persistent=True)
        if kind == 'start':
            if not order:
                BadStart('bad')
        elif kind == 'task-fails-at-once':
            # a task created by start() fails on its very first step: the simulation is aborted at the first
            # await after the start() calls, before any block is initialised or restored
            def boom():
                raise RuntimeError("poll function failed")
            edzed.ValuePoll('poll', func=boom, interval=1.0)
        elif kind == 'abort-at-once':
            pass
        else:
            edzed.Not('inv').connect('no_such_block')
        out = {}

        async def main():
            task = asyncio.create_task(circ.run_forever())
            if kind == 'abort-at-once':
                await asyncio.sleep(0)       # the simulation task runs up to its first await (start() calls done)
                if env.choose(2, 'how'):
                    circ.abort(RuntimeError('aborted at once'))
                else:
                    try:
                        await circ.shutdown()
                    except Exception:
                        pass
            try:
                await circ.wait_init()
                out['ok'] = True
            except edzed.EdzedInvalidState:
                out['ok'] = False
            try:
                await task
            except BaseException:
                pass
        vloop.run(main())
        env.check('failed-start-nothing-written', out['ok'] is False and "<Counter 'cnt'>" not in store
                  and store.get("<Input 'blk'>") == before.get("<Input 'blk'>")
                  and 'edzed-stop-time' not in store and store.get('edzed-custom') == before.get('edzed-custom'),
                  info=lambda: (store, before))


def scen_init_event(env, order, etype_kind):
    """an event sent during start-up (from another block's restoration) reaches a persistent block
    BEFORE that block restored its own state: the saved state must survive and be restored"""
    clock = WallClock()
    with clock:
        circ = fresh_circuit()
        v = env.int('sender_value')
        saved = env.int('saved_counter')
        store = PickleStore({"<Input 'src'>": v, "<Counter 'cnt'>": saved, 'edzed-stop-time': clock.time() - 10.0})
        circ.set_persistent_data(store)
        et = {'plain': 'inc', 'cond-none': edzed.EventCond('inc', None), 'cond-both': edzed.EventCond('inc', 'dec')}[etype_kind]

        def mk_src():
            return edzed.Input('src', persistent=True, initdef=0, on_output=edzed.Event('cnt', et))

        def mk_cnt():
            return edzed.Counter('cnt', persistent=True, initdef=1000)
        if order == 0:
            src, cnt = mk_src(), mk_cnt()        # the sender is restored first: its event finds cnt untouched
        else:
            cnt, src = mk_cnt(), mk_src()
        out = {}

        async def main():
            asyncio.create_task(circ.run_forever())
            try:
                await circ.wait_init()
                out['ok'] = True
            except edzed.EdzedInvalidState:
                out['ok'] = False
            out['cnt'] = cnt.output
            if out['ok']:
                await circ.shutdown()
        vloop.run(main())
        # reference: cnt is restored to its saved value; the sender's restoration (UNDEF -> v) sends one event
        if etype_kind == 'plain':
            exp = saved + 1
        elif etype_kind == 'cond-none':
            exp = If_(v != 0, saved + 1, saved)
        else:
            exp = If_(v != 0, saved + 1, saved - 1)
        env.check('restored-state', out['ok'] and bool(env.holds(eq_(out['cnt'], exp))), info=lambda: (order, etype_kind, out, exp))


def scen_stop_during_init(env, kind):
    """a regular stop (shutdown) while another block is still in its asynchronous initialisation, on a first run: the
    persistent block has not been initialised yet and has no state - nothing may be stored for it that a restart
    would take for a saved state (the block must come up from its constructor arguments / initdef)"""
    clock = WallClock()
    with clock:
        if kind in ('timedate', 'timespan'):
            # the cron service reads the real wall clock: concrete instants here (its timers must not be compared
            # with symbolic ones), the stop falls into the asynchronous initialisation
            d, t_stop = 5.0, 2.0
        else:
            d = env.real('init_duration', 0, 10, lo_open=True)
            t_stop = env.real('t_stop', 0, 10)

        def build():
            class Slow(edzed.AddonAsync, edzed.SBlock):
                async def init_async(self):
                    await asyncio.sleep(d)
                    self.set_output(1)
            Slow('slow', init_timeout=20.0)
            if kind == 'timedate':
                return edzed.TimeDate('blk', times='0:00-0:00', persistent=True), edzed.TimeDate.parse('0:00-0:00', None, None)
            if kind == 'timespan':
                return (edzed.TimeSpan('blk', span='2000-01-01 0:00 / 2100-01-01 0:00', persistent=True),
                        edzed.TimeSpan.parse('2000-01-01 0:00 / 2100-01-01 0:00'))
            if kind == 'input':
                return edzed.Input('blk', initdef=5, persistent=True), 5
            if kind == 'counter':
                return edzed.Counter('blk', initdef=5, persistent=True), 5
            return edzed.Timer('blk', t_on=7.0, persistent=True), ('off', None, {})
        circ = fresh_circuit()
        store = PickleStore({})
        circ.set_persistent_data(store)
        blk, exp_init = build()
        res = {}

        async def run1():
            loop = asyncio.get_running_loop()
            task = asyncio.create_task(circ.run_forever())
            await asyncio.sleep(t_stop)
            res['initialised_at_stop'] = blk.is_initialized()
            await circ.shutdown()
            clock.frozen_loop_time = loop.time()
        vloop.run(run1())
        early = bool(t_stop < d)        # forks
        if not early:
            if not bool(t_stop > d):
                return              # exact tie between the stop request and the end of the initialisation: nothing claimed
            env.note('stopped-after-init')
            env.check('saved-at-stop', state_eq(store.get(blk.key), exp_init) if not isinstance(exp_init, dict) and not isinstance(exp_init, list)
                      else store.get(blk.key) == exp_init, info=lambda: store)
            return
        env.note('stopped-during-async-init')
        env.check('not-initialised-at-stop', res['initialised_at_stop'] is False)
        circ2 = fresh_circuit()
        store2 = PickleStore(snap(store))
        circ2.set_persistent_data(store2)
        clock.offset = 100.0
        blk2, _ = build()

        async def run2():
            asyncio.create_task(circ2.run_forever())
            await circ2.wait_init()
            res['state2'] = blk2.get_state()
            res['out2'] = blk2.output
            await circ2.shutdown()
        vloop.run(run2())
        env.check('restored-state', res['state2'] == exp_init and (kind not in ('timedate', 'timespan') or res['out2'] is True),
                  info=lambda: (kind, store, res))


def scen_timeblocks(env, kind, crash, ek):
    """TimeDate / TimeSpan: the state is the (normalised) configuration; 'reconfig' events are saved, a restart
    restores the saved configuration instead of the constructor's (concrete configurations, real datetime)"""
    clock = WallClock()
    with clock:
        circ = fresh_circuit()
        store = PickleStore(STALE)
        circ.set_persistent_data(store)
        if kind == 'timedate':
            mk = lambda **kw: edzed.TimeDate('tb', times='1:00-2:00', dates='Jan 1 - Feb 2', persistent=True, **kw)
            new_cfg = dict(times=[[[3, 0], [4, 30, 15]]], weekdays='135')
            exp_init = edzed.TimeDate.parse('1:00-2:00', 'Jan 1 - Feb 2', None)
            exp_new = edzed.TimeDate.parse(new_cfg['times'], None, '135')
        else:
            mk = lambda **kw: edzed.TimeSpan('tb', span='2030-01-01 0:00 / 2031-01-01 0:00', persistent=True, **kw)
            new_cfg = dict(span=[[[2040, 5, 6, 7, 8], [2041, 1, 2, 3, 4, 5, 6]]])
            exp_init = edzed.TimeSpan.parse('2030-01-01 0:00 / 2031-01-01 0:00')
            exp_new = edzed.TimeSpan.parse(new_cfg['span'])
        blk = mk()
        snaps = {}

        async def run1():
            loop = asyncio.get_running_loop()
            asyncio.create_task(circ.run_forever())
            await circ.wait_init()
            env.check('saved-after-init', store.get(blk.key) == exp_init == blk.get_state(), info=lambda: store)
            snaps['init'] = snap(store)
            blk.event('reconfig', **new_cfg)
            env.check('saved-after-event', store.get(blk.key) == exp_new == blk.get_state(), info=lambda: store)
            snaps['event'] = snap(store)
            await circ.shutdown()
            env.check('saved-at-stop', store.get(blk.key) == exp_new and isinstance(store.get('edzed-stop-time'), float))
            snaps['stop'] = snap(store)
            clock.frozen_loop_time = loop.time()
        vloop.run(run1())
        storage = snaps[crash]
        exp_saved = exp_init if crash == 'init' else exp_new
        circ2 = fresh_circuit()
        store2 = PickleStore(storage)
        circ2.set_persistent_data(store2)
        clock.offset = 50.0
        kw = {} if ek == 'none' else ({'expiration': 0} if ek == 'zero' else {'expiration': 3600.0 if ek == 'long' else 10.0})
        blk2 = mk(**kw)

        async def run2():
            asyncio.create_task(circ2.run_forever())
            await circ2.wait_init()
            restored = ek in ('none', 'long') or (ek == 'short' and 'edzed-stop-time' not in storage)
            env.note('restored' if restored else 'discarded-expired')
            env.check('restored-state', blk2.get_state() == (exp_saved if restored else exp_init),
                      info=lambda: (crash, ek, blk2.get_state(), exp_saved))
            await circ2.shutdown()
        vloop.run(run2())


def shards(tier):
    nev = BOUNDS[tier]['events']
    out = [{'name': 'failed start: start() raises', 'scenario': 'scen_failed_start', 'params': {'kind': 'start'}},
           {'name': 'failed start: unresolved name', 'scenario': 'scen_failed_start', 'params': {'kind': 'resolve'}},
           {'name': 'failed start: task fails at once', 'scenario': 'scen_failed_start', 'params': {'kind': 'task-fails-at-once'}},
           {'name': 'failed start: aborted at the first await', 'scenario': 'scen_failed_start', 'params': {'kind': 'abort-at-once'}}]
    for kind in ('timedate', 'timespan', 'input', 'counter', 'timer'):
        out.append({'name': f'stop during the asynchronous initialisation: {kind}', 'scenario': 'scen_stop_during_init',
                    'params': {'kind': kind}, 'cost': 3})
    for kind, evs in (('fsm', ('poke', 'disarm')), ('timer', ('start', 'start-refused', 'stop'))):
        for le in evs:
            out.append({'name': f'event during the clean-up: {kind} {le}', 'scenario': 'scen_cleanup_event',
                        'params': {'kind': kind, 'late_event': le}, 'cost': 3})
    for reaction in ('disarm', 'arm', 'arm-duration', 'poke', 'none'):
        out.append({'name': f'event during the restore: {reaction}', 'scenario': 'scen_restore_feedback',
                    'params': {'reaction': reaction}, 'cost': 3})
    for kind in ('input', 'counter'):
        for sync in (True, False):
            for si in ([-1] + list(range(nev + 1)) if sync else [-1]):
                out.append({'name': f'{kind} sync={sync} n={nev} snapshot={si}', 'scenario': 'scen_simple',
                            'params': {'kind': kind, 'sync': sync, 'nev': nev, 'snap_idx': si}, 'cost': 3})
    fnev = BOUNDS[tier]['fsm_events']
    for sync in (True, False):
        for ev0 in ('arm', 'disarm', 'poke', 'boom'):
            if not sync and ev0 != 'arm':
                continue
            for si in ([-1] + list(range(fnev + 2)) if sync else [-1]):
                for ek in ('none', 'zero', 'sym'):
                    if ev0 == 'boom' and (si != -1 or ek != 'none'):
                        continue
                    out.append({'name': f'fsm sync={sync} n={fnev} ev0={ev0} snapshot={si} expiration={ek}',
                                'scenario': 'scen_fsm',
                                'params': {'sync': sync, 'nev': fnev, 'ev0': ev0, 'snap_idx': si, 'ek': ek},
                                'cost': (20 if ev0 == 'arm' else 5) * (2 if ek == 'sym' else 1)})
    for kind in ('timedate', 'timespan'):
        for crash in ('init', 'event', 'stop'):
            for ek in ('none', 'zero', 'short', 'long'):
                out.append({'name': f'{kind} snapshot={crash} expiration={ek}', 'scenario': 'scen_timeblocks',
                            'params': {'kind': kind, 'crash': crash, 'ek': ek}})
    for order in (0, 1):
        for ek in ('plain', 'cond-none', 'cond-both'):
            out.append({'name': f'init-time event order={order} {ek}', 'scenario': 'scen_init_event',
                        'params': {'order': order, 'etype_kind': ek}})
    for kind in ('timer', 'inputexp'):
        out.append({'name': f'derived {kind}', 'scenario': 'scen_derived', 'params': {'kind': kind}})
    return out
