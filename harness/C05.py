"""
C05 - after start-up every block has a valid output, taken from the documented sources.

Real code executed symbolically (virtual-time loop): Circuit.run_forever (start sequence),
init_sblock, _init_sblocks_sync_1/_async/_sync_2, _run_tasks, wait_init, SBlock.event (early
initialisation branch), AddonAsync.__init__, AddonPersistence.init_from_persistent_data,
ValuePoll, InitAsync, AddonAsyncInit.

Per block every init source (saved state / init_async / init_regular / initdef) is solver-chosen
from {absent, sets the output, returns without output, raises}; init_async completes at a
symbolic instant against a symbolic init_timeout (<= 0, earlier, exactly at, later are regions);
one init step may send an event to another block; all creation orders are explored.  A
reference model of the documented rules (docs/blocks.rst "Initialization rules") computed in a
canonical order gives the per-block call sequences, the final outputs and the verdict.
"""
import asyncio
import itertools
from symx.core import And_, Or_, Not_, Iff_, eq_, is_sym
from symx.edz import fresh_circuit
from symx import vloop
import edzed
from edzed import UNDEF

PROPERTY = 'C05'
LEVEL = 'model_checking'
BOUNDS = {'quick': {'blocks': 2, 'sources': 'restore/async/regular/initdef each in {absent,set,noop,raise}', 'edges': '<= 1'},
          'thorough': {'blocks': 3, 'sources': 'as quick', 'edges': '<= 1'}}
OUTSIDE = ["more than one init-time event edge", "an init-time event whose destination has a raising init step "
           "(the exception then travels through the sender's routine)", "more than 3 blocks",
           "a failing first evaluation is covered by the FuncBlock shard only"]
STUBS = ["virtual-time loop with symbolic clock", "init routines are stubs with solver-chosen behaviour"]
ASSUMPTIONS = ["when init_async completes exactly at the time-out instant either outcome is accepted"]
EXPECT_LABELS = {'all': ['verdict', 'calls', 'outputs-valid', 'wait-init-raises', 'time-bound', 'each-once',
                         'library-blocks', 'first-eval-failure']}
EXPECT_NOTES = {'all': ['success', 'failure-uninitialised', 'failure-exception', 'async-timed-out', 'async-completed',
                        'async-skipped-initialised', 'async-disabled-timeout', 'early-init-by-event']}
FLOORS = {'quick': {'paths': 1000, 'checks': 4000}, 'thorough': {'paths': 10000, 'checks': 40000}}

BEH = ['absent', 'set', 'noop', 'raise']


class Fatal(Exception):
    pass


def make_block(name, spec, calls, edge_of, clock):
    """spec: dict(restore, async_, regular, initdef, poke_sets, D, T)"""
    bases = []
    if spec['restore'] != 'absent':
        bases.append(edzed.AddonPersistence)
    if spec['async_'] != 'absent':
        bases.append(edzed.AddonAsync)
    bases.append(edzed.SBlock)
    ns = {}

    def do(self, step, beh):
        calls.append((name, step, clock()))
        fire = edge_of.get((name, step))
        if beh == 'set':
            self.set_output((name, step))
        if fire is not None:
            fire.send(self, step=step)
        if beh == 'raise':
            raise RuntimeError(f"{name}.{step} failed")

    if spec['restore'] != 'absent':
        ns['_restore_state'] = lambda self, state: do(self, 'restore', spec['restore'])
    if spec['async_'] != 'absent':
        async def init_async(self):
            calls.append((name, 'async-start', clock()))
            await asyncio.sleep(spec['D'])
            do(self, 'async', spec['async_'])
        ns['init_async'] = init_async
    if spec['regular'] != 'absent':
        ns['init_regular'] = lambda self: do(self, 'regular', spec['regular'])
    if spec['initdef'] != 'absent':
        ns['init_from_value'] = lambda self, value: do(self, 'initdef', spec['initdef'])

    def _event_poke(self, **data):
        calls.append((name, 'poke', clock()))
        if spec['poke_sets'] and not self.is_initialized():
            self.set_output((name, 'poke'))
        return 'poked'
    ns['_event_poke'] = _event_poke
    cls = type('IB_' + name, tuple(bases), ns)
    kw = {}
    if spec['restore'] != 'absent':
        kw['persistent'] = True
    if spec['async_'] != 'absent':
        kw['init_timeout'] = spec['T']
    if spec['initdef'] != 'absent':
        kw['initdef'] = 'DEF'
    return cls, kw


def async_outcomes(items):
    """items: [(name, D, T)] of the started asynchronous routines (time-outs > 0).
    Documented rule: the wait is bounded by the largest init_timeout; routines are awaited in
    the order of decreasing time-out, one still running when its turn comes gets the rest of
    its own time-out.  Returns {name: True (completes) | False (cancelled)} or None on a tie."""
    out = {}
    cur = 0
    for n, D, T in sorted(items, key=lambda it: KeyDesc(it[2])):
        if D < cur:
            out[n] = True
        elif D == cur and cur > 0:
            return None
        elif T > cur:
            if D < T:
                out[n] = True
                cur = D
            elif D == T:
                return None
            else:
                out[n] = False
                cur = T
        else:
            out[n] = False
    return out


class RefInit:
    """Reference model of the documented initialisation rules."""

    def __init__(self, specs, edge, env):
        self.specs = specs
        self.edge = edge         # (src, step, dst) or None
        self.env = env
        self.init = {n: False for n in specs}
        self.steps = {n: 0 for n in specs}
        self.calls = {n: [] for n in specs}
        self.fatal = False

    def _do(self, n, step, beh, now):
        self.calls[n].append((step, now))
        if beh == 'set':
            self.init[n] = True
        if self.edge and self.edge[0] == n and self.edge[1] == step:
            self.poke(self.edge[2], now)
        if beh == 'raise':
            raise Fatal(f"{n}.{step}")

    def step1(self, n, now):
        if self.steps[n] == 0:
            self.steps[n] = 1
            if self.specs[n]['restore'] != 'absent':
                try:
                    self._do(n, 'restore', self.specs[n]['restore'], now)
                except Fatal:
                    pass       # restoration failures are only logged

    def step2(self, n, now):
        if self.steps[n] == 1:
            self.steps[n] = 2
            s = self.specs[n]
            if s['regular'] != 'absent':
                self._do(n, 'regular', s['regular'], now)
            if not self.init[n] and s['initdef'] != 'absent':
                self._do(n, 'initdef', s['initdef'], now)

    def poke(self, n, now):
        if self.steps[n] < 2:
            self.env.note('early-init-by-event')
            self.step1(n, now)
            self.step2(n, now)
        self.calls[n].append(('poke', now))
        if self.specs[n]['poke_sets'] and not self.init[n]:
            self.init[n] = True

    def run(self, order, t0):
        env = self.env
        try:
            for n in order:
                self.step1(n, t0)
            # asynchronous phase
            started = []
            for n in order:
                s = self.specs[n]
                if s['async_'] == 'absent':
                    continue
                if self.init[n]:
                    env.note('async-skipped-initialised')
                    continue
                if not (s['T'] > 0):
                    env.note('async-disabled-timeout')
                    continue
                started.append(n)
                self.calls[n].append(('async-start', t0))
            self.t_async_end = t0
            self.tie = False
            events = []
            oc = async_outcomes([(n, self.specs[n]['D'], self.specs[n]['T']) for n in started])
            if oc is None:
                self.tie = True
                return
            for n in started:
                if oc[n]:
                    env.note('async-completed')
                    events.append((t0 + self.specs[n]['D'], n))
                else:
                    env.note('async-timed-out')
            # completions in time order (ties between two completions: creation order of the tasks)
            events.sort(key=lambda e: Key(e[0]))
            for t, n in events:
                try:
                    self._do(n, 'async', self.specs[n]['async_'], t)
                except Fatal:
                    pass       # failures of the asynchronous routine are only logged
            t2 = None        # the instant of phase 2 is observed, not predicted
            for n in order:
                self.step2(n, 'T2')
        except Fatal:
            self.fatal = True
            env.note('failure-exception')
            return
        if not all(self.init.values()):
            env.note('failure-uninitialised')
        else:
            env.note('success')

    @property
    def success(self):
        return not self.fatal and all(self.init.values())


class KeyDesc:
    """sort key: descending, possibly symbolic (forks)"""

    def __init__(self, t):
        self.t = t

    def __lt__(self, other):
        return bool(self.t > other.t)


class Key:
    """sort key comparing possibly symbolic times (forks)"""

    def __init__(self, t):
        self.t = t

    def __lt__(self, other):
        return bool(self.t < other.t)


ALPHA = {
    'full': {'restore': BEH, 'async_': BEH, 'regular': BEH, 'initdef': BEH},
    'mid': {'restore': ['absent', 'set', 'noop'], 'async_': ['absent', 'set', 'noop'], 'regular': ['absent', 'set', 'raise'],
            'initdef': ['absent', 'set']},
    'tiny': {'restore': ['absent', 'set'], 'async_': ['absent', 'set'], 'regular': ['absent', 'set', 'noop'],
             'initdef': ['absent', 'set']},
    'small': {'restore': ['absent', 'set'], 'async_': ['absent', 'set', 'noop'], 'regular': ['absent', 'set', 'noop'],
              'initdef': ['absent', 'set']},
}


def scen_init(env, nblocks, with_edge, alpha='full', fix=None, concrete_T=False):
    names = [f'b{i}' for i in range(nblocks)]
    specs = {}
    A = ALPHA[alpha]
    for n in names:
        f = (fix or {}) if n == 'b0' else {}
        s = {'restore': f.get('restore') or env.pick(A['restore'], f'{n}_restore'),
             'async_': f.get('async_') or env.pick(A['async_'], f'{n}_async'),
             'regular': f.get('regular') or env.pick(A['regular'], f'{n}_regular'),
             'initdef': f.get('initdef') or env.pick(A['initdef'], f'{n}_initdef'),
             'poke_sets': False, 'D': None, 'T': None}
        if s['async_'] != 'absent':
            s['D'] = env.real(f'{n}_D', 0, 100, lo_open=True)
            s['T'] = 10.0 if (concrete_T and n != 'b0') else env.real(f'{n}_T', -5, 100)
        specs[n] = s
    edge = None
    if with_edge:
        src = env.choose(nblocks, 'edge_src')
        dst = (src + 1 + env.choose(nblocks - 1, 'edge_dst')) % nblocks
        have = [st for st, key in (('restore', 'restore'), ('async', 'async_'), ('regular', 'regular'), ('initdef', 'initdef'))
                if specs[names[src]][key] != 'absent']
        if not have:
            return
        step = env.pick(have, 'edge_step')
        edge = (names[src], step, names[dst])
        d = specs[names[dst]]
        if 'raise' in (d['restore'], d['regular'], d['initdef']):
            return          # outside the claim (see OUTSIDE)
        d['poke_sets'] = bool(env.choose(2, 'poke_sets'))
    perm = list(itertools.permutations(range(nblocks)))[env.choose(len(list(itertools.permutations(range(nblocks)))), 'order')]
    order = [names[i] for i in perm]
    circ = fresh_circuit()
    calls = []
    loopref = []
    clock = lambda: loopref[0].time() if loopref else 0.0
    edge_of = {}
    blocks = {}
    if edge:
        edge_of[(edge[0], edge[1])] = edzed.Event(edge[2], 'poke')
    store = {}
    for n in order:
        cls, kw = make_block(n, specs[n], calls, edge_of, clock)
        blocks[n] = cls(n, **kw)
        if specs[n]['restore'] != 'absent':
            store[blocks[n].key] = 'saved'
    circ.set_persistent_data(store)
    ref = RefInit(specs, edge, env)
    ref.run(names, 0.0)         # canonical order, whatever the creation order
    if getattr(ref, 'tie', False):
        return                   # completion exactly at the time-out: either outcome is legal
    res = {}

    async def main():
        loop = asyncio.get_running_loop()
        loopref.append(loop)
        task = asyncio.create_task(circ.run_forever())
        try:
            await circ.wait_init()
            res['ok'] = True
        except edzed.EdzedInvalidState:
            res['ok'] = False
        res['t'] = loop.time()
        res['ready'] = circ.is_ready()
        res['outputs'] = {n: b.output for n, b in blocks.items()}
        res['task_done'] = task.done()
        if res['ok']:
            await circ.shutdown()
        else:
            try:
                await task
            except BaseException as err:
                res['err'] = err
    vloop.run(main())
    env.obs('init', order, {n: [c[0] for c in ref.calls[n]] for n in names}, res['ok'])
    env.check('verdict', res['ok'] == ref.success, info=lambda: (order, specs, edge, res, ref.calls, ref.init))
    if res['ok']:
        env.check('outputs-valid', all(o is not UNDEF for o in res['outputs'].values()) and res['ready'],
                  info=lambda: res)
    else:
        env.check('wait-init-raises', not res['ready'] and isinstance(res.get('err'), Exception)
                  and circ.error is not None, info=lambda: res)
    # per-block call sequences (order of steps within each block) agree with the reference
    for n in names:
        got = [(st, t) for (bn, st, t) in calls if bn == n]
        exp = ref.calls[n]
        if ref.fatal:
            # after a fatal error the remaining blocks are not processed: the real log is a prefix
            ok = [g[0] for g in got] == [e[0] for e in exp][:len(got)] or [e[0] for e in exp] == [g[0] for g in got][:len(exp)]
            env.check('calls', ok, info=lambda: (n, got, exp))
            continue
        same = [g[0] for g in got] == [e[0] for e in exp]
        env.check('calls', same, info=lambda: (n, order, got, exp, specs[n], edge))
        if same:
            conds = [eq_(g[1], e[1]) for g, e in zip(got, exp) if not isinstance(e[1], str)]
            env.check('call-times', And_(*conds) if conds else True, info=lambda: (n, got, exp))
        for st in ('restore', 'async-start', 'regular', 'initdef'):
            env.check('each-once', [g[0] for g in got].count(st) <= 1, info=lambda: (n, got))
    # never waited for longer than the largest init_timeout
    tos = [specs[n]['T'] for n in names if specs[n]['async_'] != 'absent']
    if tos and not ref.fatal:
        env.check('time-bound', Or_(*[res['t'] <= T for T in tos], eq_(res['t'], 0.0)), info=lambda: (res['t'], tos))
    elif not tos:
        env.check('time-bound', bool(eq_(res['t'], 0.0)))


def scen_library(env):
    """ValuePoll (func returning UNDEF k times), InitAsync, a block initialisable only by an event"""
    circ = fresh_circuit()
    k = env.choose(3, 'undef_count')
    iv = env.real('interval', 2, 10)          # bounded number of polls within the horizon (<= 4)
    T = env.real('poll_timeout', 0, 8, lo_open=True)
    cnt = [0]

    def func():
        cnt[0] += 1
        return UNDEF if cnt[0] <= k else 42
    with_initdef = env.choose(2, 'poll_initdef')
    kw = {'initdef': 'fallback'} if with_initdef else {}
    vp = edzed.ValuePoll('vp', func=func, interval=iv, init_timeout=T, **kw)
    D = env.real('coro_duration', 0, 8, lo_open=True)
    T2 = env.real('ia_timeout', 0, 8, lo_open=True)

    async def coro(x):
        await asyncio.sleep(D)
        return x * 2
    target = edzed.Input('target')       # no initdef: initialised only by InitAsync's event
    ia = edzed.InitAsync('ia', init_coro=[coro, 21], init_timeout=T2,
                         on_output=edzed.Event(target, 'put'))
    res = {}

    async def main():
        loop = asyncio.get_running_loop()
        task = asyncio.create_task(circ.run_forever())
        try:
            await circ.wait_init()
            res['ok'] = True
        except edzed.EdzedInvalidState:
            res['ok'] = False
        res['t'] = loop.time()
        res['vp'], res['ia'], res['target'] = vp.output, ia.output, target.output
        if res['ok']:
            await circ.shutdown()
        else:
            try:
                await task
            except BaseException:
                pass
    vloop.run(main())
    t_first = iv * k                       # instant of the first real value
    items = [('ia', D, T2)]
    if k > 0:
        items.append(('vp', t_first, T))    # k == 0: the value is there before the async phase starts
    oc = async_outcomes(items)
    if oc is None:
        return                             # ties with a time-out
    poll_in_time = True if k == 0 else oc['vp']
    ia_in_time = oc['ia']
    exp_vp = 42 if poll_in_time else ('fallback' if with_initdef else UNDEF)
    # InitAsync: the coroutine's result, or None (without on_output events) if it timed out
    exp_target_init = ia_in_time
    exp_ok = exp_vp is not UNDEF and exp_target_init
    env.check('library-blocks', res['ok'] == exp_ok, info=lambda: (res, exp_vp, exp_target_init))
    if res['ok']:
        env.check('library-values', res['vp'] == exp_vp and res['ia'] == 42 and res['target'] == 42, info=lambda: res)


def scen_first_eval(env, slow_stop=False):
    """the very first evaluation of the circuit fails (the function raises, or yields UNDEF - 'every block's output
    differs from UNDEF') -> the simulation terminates with an error and wait_init() raises EdzedInvalidState.
    slow_stop: a block with an asynchronous clean-up keeps the simulation task busy for a while after the failure."""
    circ = fresh_circuit()
    thr = env.int('threshold')
    inp = edzed.Input('inp', initdef=env.int('value'))
    how = env.pick(['raise', 'undef'], 'failure')

    def func(x):
        if x >= thr:
            if how == 'undef':
                return edzed.UNDEF
            raise ZeroDivisionError("calc failed")
        return x
    fb = edzed.FuncBlock('fb', func=func).connect(inp)
    if slow_stop:
        dur = env.real('stop_duration', 0, 5, lo_open=True)

        class Slow(edzed.AddonAsync, edzed.SBlock):
            def init_regular(self):
                self.set_output(0)

            async def stop_async(self):
                await asyncio.sleep(dur)
        Slow('slow', stop_timeout=10.0)
    res = {}

    async def main():
        task = asyncio.create_task(circ.run_forever())
        try:
            await circ.wait_init()
            res['ok'] = True
            res['fb'] = fb.output
        except edzed.EdzedInvalidState:
            res['ok'] = False
        res['ready-at-return'] = circ.is_ready()
        await asyncio.sleep(0)
        await asyncio.sleep(0)
        if slow_stop:
            await asyncio.sleep(6.0)
        res['done'] = task.done()
        res['ready'] = circ.is_ready()
        if not task.done():
            await circ.shutdown()
        else:
            try:
                await task
            except BaseException as err:
                res['err'] = err
        await asyncio.sleep(0)
        res['leftover'] = [t.get_name() for t in asyncio.all_tasks() if t is not asyncio.current_task()]
    vloop.run(main())
    fails = bool(inp.output >= thr)
    if fails:
        env.note('first-evaluation-fails')
        # _init_done is set and the first evaluation runs in the same step of the simulation task: a wait_init()
        # that returns normally has returned AFTER the failure
        env.check('first-eval-failure', res['done'] and not res['ready'] and
                  isinstance(res.get('err'), ValueError if how == 'undef' else ZeroDivisionError), info=lambda: res)
        env.check('wait-init-raises', not res['ok'], info=lambda: res)
    else:
        env.check('first-eval-failure', res['ok'] and not res['done'] and res['ready-at-return'], info=lambda: res)
        env.check('outputs-valid', res['fb'] is not edzed.UNDEF and bool(eq_(res['fb'], inp.output)), info=lambda: res)


def scen_three_async(env, order_idx):
    """three blocks in asynchronous initialisation, distinct symbolic time-outs T0 > T1 > T2 and symbolic
    durations: which routines complete, the fallback to initdef, and the bound of the wait"""
    names = ['b0', 'b1', 'b2']
    T = [env.real(f'T{i}', 0, 50, lo_open=True) for i in range(3)]
    D = [env.real(f'D{i}', 0, 80, lo_open=True) for i in range(3)]
    env.assume(And_(T[0] > T[1], T[1] > T[2]))
    specs = {n: {'restore': 'absent', 'async_': 'set', 'regular': 'absent', 'initdef': 'set', 'poke_sets': False,
                 'D': D[i], 'T': T[i]} for i, n in enumerate(names)}
    order = [names[i] for i in list(itertools.permutations(range(3)))[order_idx]]
    circ = fresh_circuit()
    calls = []
    loopref = []
    clock = lambda: loopref[0].time() if loopref else 0.0
    blocks = {}
    for n in order:
        cls, kw = make_block(n, specs[n], calls, {}, clock)
        blocks[n] = cls(n, **kw)
    oc = async_outcomes([(n, specs[n]['D'], specs[n]['T']) for n in names])
    if oc is None:
        return
    res = {}

    async def main():
        loop = asyncio.get_running_loop()
        loopref.append(loop)
        asyncio.create_task(circ.run_forever())
        await circ.wait_init()
        res['t'] = loop.time()
        res['out'] = {n: b.output for n, b in blocks.items()}
        await circ.shutdown()
    vloop.run(main())
    for n in names:
        exp = (n, 'async') if oc[n] else (n, 'initdef')
        env.check('verdict', res['out'][n] == exp, info=lambda: (n, order, oc, res['out'], [str(x) for x in T + D]))
        env.note('async-completed' if oc[n] else 'async-timed-out')
    # never waited for longer than the largest init_timeout
    env.check('time-bound', res['t'] <= T[0], info=lambda: (res['t'], [str(x) for x in T + D]))


def shards(tier):
    n = BOUNDS[tier]['blocks']
    out = [{'name': 'library blocks', 'scenario': 'scen_library'},
           {'name': 'first evaluation', 'scenario': 'scen_first_eval'},
           {'name': 'first evaluation, slow clean-up', 'scenario': 'scen_first_eval', 'params': {'slow_stop': True}},
           {'name': 'one block', 'scenario': 'scen_init', 'params': {'nblocks': 1, 'with_edge': False}}]
    for oi in ((0, 5) if tier == 'quick' else range(6)):
        out.append({'name': f'three async blocks order={oi}', 'scenario': 'scen_three_async', 'params': {'order_idx': oi},
                    'cost': 20})
    def fixes(alpha):
        A = ALPHA[alpha]
        for r in A['restore']:
            for a in A['async_']:
                for g in A['regular']:
                    for d in A['initdef']:
                        yield {'restore': r, 'async_': a, 'regular': g, 'initdef': d}
    a2 = 'small' if tier == 'quick' else 'mid'
    for f in fixes(a2):
        out.append({'name': f'2 blocks b0: {f}', 'scenario': 'scen_init',
                    'params': {'nblocks': 2, 'with_edge': False, 'alpha': a2, 'fix': f}, 'cost': 5})
    ae = 'tiny' if tier == 'quick' else 'small'
    for f in fixes(ae):
        out.append({'name': f'2 blocks + edge b0: {f}', 'scenario': 'scen_init',
                    'params': {'nblocks': 2, 'with_edge': True, 'alpha': ae, 'fix': f, 'concrete_T': tier == 'quick'},
                    'cost': 10 * (3 if f['async_'] != 'absent' else 1)})
    if n >= 3:
        for f in fixes('tiny'):
            out.append({'name': f'3 blocks + edge b0: {f}', 'scenario': 'scen_init',
                        'params': {'nblocks': 3, 'with_edge': True, 'alpha': 'tiny', 'fix': f, 'concrete_T': True},
                        'cost': 100})
    return out
