"""
C15 - the finalized circuit's connection data is complete, consistent and frozen.

Real code executed: Circuit._validate_blk/_finalize/finalize, _BlockResolver.register/resolve,
addblock, check_not_finalized, set_persistent_data, CBlock.connect/input_signature/
check_signature/get_conf, Event.__init__, IfOutput/IfNotIitialized/DataEdit.add_output,
Not/FuncBlock/Override.start (signature checks).

Purely structural property: the solver's share is the exhaustive enumeration (choose) of the
bounded space of connection specifications - every reference style (object, name, '_not_NAME' of
S- and C-blocks, Const, bare constant), single inputs and groups of size 0..3, repeated
references, events and filter control blocks by name - plus every class of invalid reference.
The relational oracle is evaluated concretely per configuration: bounded exhaustive exploration
(level 'exploration'), not a symbolic argument.
"""
import edzed
from edzed import simulator
from symx.edz import sync_circuit, fresh_circuit, Settable
from symx.core import eq_

PROPERTY = 'C15'
LEVEL = 'exploration'
TECHNIQUE = ('bounded exhaustive enumeration (engine-driven choose over the connection-spec space) of the real '
             'finalisation code; relational oracle evaluated per configuration - no symbolic data in this property')
LEVEL_TEXT = ('every connection specification within the stated bound is built with the real constructors, finalised by '
              'the real Circuit code and compared with a relational oracle derived from the declared specification; '
              'the property has no numeric/temporal quantifier, so exhaustive bounded enumeration is the honest level')
BOUNDS = {'quick': {'blocks': '2 Inputs + FuncBlock(1 unnamed + named single + group 0..1) + And(group 0..2 over 6 reference forms)',
                    'styles': ['object', 'name', '_not_NAME (S and C blocks)', 'Const', 'bare constant']},
          'thorough': {'blocks': '2 Inputs + FuncBlock(1 unnamed + named single + group 0..3) + And(group 0..3) [one group up to 3 while the other is 0..1] + Override',
                       'styles': 'as quick'}}
OUTSIDE = ["more than 5 user blocks (statement: up to 8)", "iterators as group specifications (deprecated)"]
STUBS = ["Circuit.sblock_queue = list-backed stub; finalisation = real resolver.resolve()/finalize()/start()"]
ASSUMPTIONS = []
NONTRIVIAL_RULE = ('distinct_nontrivial = configurations (each enumerated once) that contain at least one reference '
                   'by name or _not_ shortcut to resolve, or an invalid reference')
EXPECT_LABELS = {'all': ['resolved-inputs', 'one-shared-inverter', 'connections-symmetric', 'conf-signature', 'by-name-resolved',
                         'invalid-rejected', 'frozen']}
EXPECT_NOTES = {'all': ['shared-inverter-used-twice', 'inverter-of-cblock', 'empty-group', 'repeated-reference']}
FLOORS = {'quick': {'paths': 2000, 'checks': 10000}, 'thorough': {'paths': 20000, 'checks': 100000}}

SRC = ['s0', 's1', 'c0']
STYLES = ['obj', 'name', 'not', 'const', 'bare']


def options(allow_c0):
    out = []
    for b in SRC:
        if b == 'c0' and not allow_c0:
            continue
        for st in ('obj', 'name', 'not'):
            out.append((st, b))
    out.append(('const', 7))
    out.append(('bare', 8))
    return out


def realise(opt, objs):
    st, x = opt
    if st == 'obj':
        return objs[x]
    if st == 'name':
        return x
    if st == 'not':
        return '_not_' + x
    if st == 'const':
        return edzed.Const(x)
    return x


def expect_obj(opt, circ):
    """what the reference must have been resolved to"""
    st, x = opt
    if st in ('obj', 'name'):
        return ('block', x)
    if st == 'not':
        return ('block', '_not_' + x)
    return ('const', x)


def check_input(env, got, opt, circ):
    kind, x = expect_obj(opt, circ)
    if kind == 'const':
        return isinstance(got, edzed.Const) and got.output == x
    return isinstance(got, edzed.Block) and got is circ.findblock(x) and got.name == x


def choose_group(env, n_max, opts, label):
    n = env.choose(n_max + 1, f'{label}_len')
    return [opts[env.choose(len(opts), f'{label}_{i}')] for i in range(n)]


def scen_valid(env, gmax, first=None, with_override=False, small=False, g0max=None, g1max=None, by_name=None):
    circ = sync_circuit()
    s0 = edzed.Input('s0', initdef=0)
    s1 = edzed.Input('s1', initdef=1)
    objs = {'s0': s0, 's1': s1}
    o_s = options(False)
    o_all = options(True)
    # c0: FuncBlock(unnamed, single=, grp=[...])
    u = first if first is not None else o_s[env.choose(len(o_s), 'c0_unnamed')]
    u = tuple(u)
    single = o_s[env.choose(len(o_s), 'c0_single')]
    grp = choose_group(env, g0max if g0max is not None else (1 if small else gmax), o_s, 'c0_grp')
    c0 = edzed.FuncBlock('c0', func=lambda *a, **k: 0)
    gform = env.choose(2, 'grp_form')
    g = [realise(o, objs) for o in grp]
    c0.connect(realise(u, objs), single=realise(single, objs), grp=g if gform else tuple(g))
    objs['c0'] = c0
    # c1: And over a group that may refer to c0 / _not_c0
    o_c1 = [('obj', 's0'), ('not', 's0'), ('name', 'c0'), ('not', 'c0'), ('const', 7), ('not', 's1')] if small else o_all
    g1 = choose_group(env, g1max if g1max is not None else (2 if small else gmax), o_c1, 'c1_grp')
    c1 = edzed.And('c1')
    if g1:
        c1.connect(*[realise(o, objs) for o in g1])
    else:
        env.note('empty-group')
    spec = {'c0': {'_': [u], 'single': single, 'grp': grp}, 'c1': {'_': g1} if g1 else {}}
    if with_override:
        a = o_all[env.choose(len(o_all), 'ov_in')]
        b = o_all[env.choose(len(o_all), 'ov_ov')]
        ov = edzed.Override('ov').connect(input=realise(a, objs), override=realise(b, objs))
        spec['ov'] = {'input': a, 'override': b}
    # events and filters by name / by object
    if by_name is None:
        by_name = env.choose(2, 'events_by_name')
    ev = edzed.Event('s1' if by_name else s1, 'put',
                     efilter=[edzed.IfOutput('c0' if by_name else c0), edzed.IfNotIitialized('s0' if by_name else s0),
                              edzed.DataEdit.add_output('k', '_not_s1' if by_name else s1)])
    trig = Settable('trig', on_output=ev)
    # ---- finalise with the real code --------------------------------------------------------
    circ._resolver.resolve()
    circ.finalize()
    for blk in circ.getblocks():
        blk.start()
    blocks = {b.name: b for b in circ.getblocks()}
    # (1) every input resolved to the right object
    all_refs = []
    for bname, inputs in spec.items():
        blk = blocks[bname]
        for iname, val in inputs.items():
            got = blk.inputs[iname]
            if isinstance(val, list):
                ok = isinstance(got, tuple) and len(got) == len(val) and all(
                    check_input(env, g_, o, circ) for g_, o in zip(got, val))
                all_refs += [(bname, o) for o in val]
            else:
                ok = check_input(env, got, val, circ)
                all_refs.append((bname, val))
            env.check('resolved-inputs', ok, info=lambda: (bname, iname, val, got))
    # (2) the inverter behind a shortcut exists exactly once and is shared
    used = {}
    if by_name:
        used['_not_s1'] = used.get('_not_s1', 0) + 1
    for bname, (st, x) in all_refs:
        if st == 'not':
            used['_not_' + x] = used.get('_not_' + x, 0) + 1
    inverters = [b for b in circ.getblocks() if b.name.startswith('_not_')]
    env.check('one-shared-inverter', sorted(b.name for b in inverters) == sorted(used)
              and all(isinstance(b, edzed.Not) for b in inverters), info=lambda: (used, inverters))
    for name, cnt in used.items():
        if cnt > 1:
            env.note('shared-inverter-used-twice')
        if name == '_not_c0':
            env.note('inverter-of-cblock')
        inv = blocks.get(name)
        if inv is not None:
            src = inv.inputs['_'][0]
            env.check('inverter-wired', src is blocks[name[5:]] and inv.iconnections == {src} and inv in src.oconnections)
    if len(all_refs) != len(set(all_refs)):
        env.note('repeated-reference')
    # (3) B in A.oconnections <=> A in B.iconnections <=> A feeds one of B's inputs
    feeds = {}
    for bname, opt in all_refs:
        kind, x = expect_obj(opt, circ)
        if kind == 'block':
            feeds.setdefault(bname, set()).add(x)
    for name in used:
        feeds.setdefault(name, set()).add(name[5:])
    for a in blocks.values():
        for b in blocks.values():
            if not isinstance(b, edzed.CBlock):
                env.check('connections-symmetric', b not in a.oconnections)
                continue
            f = a.name in feeds.get(b.name, set())
            env.check('connections-symmetric', (b in a.oconnections) == f and (a in b.iconnections) == f,
                      info=lambda: (a.name, b.name, f, a.oconnections, b.iconnections))
    # (4) get_conf() and input_signature() describe the same structure
    for bname in spec:
        blk = blocks[bname]
        if not blk.inputs:
            continue
        sig = blk.input_signature()
        conf = blk.get_conf()['inputs']
        ok = set(sig) == set(conf)
        for k in sig:
            if sig[k] is None:
                ok = ok and isinstance(conf[k], str)
            else:
                ok = ok and isinstance(conf[k], tuple) and len(conf[k]) == sig[k]
        names_ok = all((conf[k] == blk.inputs[k].name) if sig[k] is None else
                       (conf[k] == tuple(x.name for x in blk.inputs[k])) for k in sig)
        env.check('conf-signature', ok and names_ok, info=lambda: (sig, conf))
    # (5) by-name references of events and filters
    env.check('by-name-resolved', ev.dest is s1 and ev._filters[0]._ctrl_blk is c0 and ev._filters[1]._ctrl_blk is s0)
    # (6) frozen
    frozen = []
    for what, fn in (('addblock', lambda: edzed.Input('late', initdef=0)),
                     ('connect', lambda: edzed.And.connect(c1, s0)),
                     ('connect-new', lambda: c0.connect(s0)),
                     ('set_persistent_data', lambda: circ.set_persistent_data({}))):
        try:
            fn()
            frozen.append(what)
        except edzed.EdzedInvalidState:
            pass
    env.check('frozen', not frozen, info=lambda: frozen)
    if any(st in ('name', 'not') for _, (st, _x) in all_refs):
        env.note('__nontrivial')
    env.obs('valid', spec)


INVALID = ['unknown-name', 'unknown-not', 'foreign-block', 'foreign-event-dest', 'foreign-filter-block', 'event-dest-cblock', 'filter-wrong-kind', 'missing-input',
           'wrong-shape-not', 'wrong-shape-override', 'duplicate-name', 'connect-twice', 'event-unknown-dest',
           'reserved-underscore', 'double-underscore-not', 'multiple-as-single', 'single-as-group', 'no-inputs']


def scen_invalid(env, which):
    other = fresh_circuit()
    # the block of the other circuit may have a namesake in the current circuit ('s0'): a reference by OBJECT must
    # still be refused - it is not the block of that name in this circuit
    fname = 's0' if which.startswith('foreign') and env.choose(2, 'foreign_has_a_namesake') else 'foreign'
    foreign = edzed.Input(fname, initdef=0)
    circ = sync_circuit()
    s0 = edzed.Input('s0', initdef=0)
    stage = {}

    def prior(name):
        """optionally an earlier, VALID reference by name to the same block (any kind is fine for these)"""
        k = env.choose(3, 'prior_valid_reference')
        if k == 1:
            return [edzed.IfOutput(name)]
        if k == 2:
            return [edzed.DataEdit.add_output('k', name)]
        return []

    def build():
        if which == 'unknown-name':
            edzed.And('c').connect('s0', 'nope')
        elif which == 'unknown-not':
            edzed.And('c').connect('_not_nope')
        elif which == 'foreign-block':
            edzed.And('c').connect(s0, foreign)
        elif which == 'foreign-event-dest':
            # a block OBJECT of another circuit as event destination / filter control block; nothing is sent
            # during the start, so only construction or the start itself can refuse it
            Settable('t', on_output=edzed.Event(foreign, 'put'))
        elif which == 'foreign-filter-block':
            k = env.choose(3, 'filter')
            flt = [edzed.IfOutput, edzed.NotIfInitialized, lambda b: edzed.DataEdit.add_output('k', b)][k](foreign)
            Settable('t', on_output=edzed.Event(s0, 'put', efilter=flt))
        elif which == 'event-dest-cblock':
            c = edzed.And('c').connect(s0)
            by = env.choose(2, 'by_name')
            flt = prior('c') if by else []
            Settable('t', on_output=edzed.Event('c' if by else c, 'put', efilter=flt))
        elif which == 'filter-wrong-kind':
            c = edzed.And('c').connect(s0)
            by = env.choose(2, 'by_name')
            flt = prior('c') if by else []
            Settable('t', on_output=edzed.Event(s0, 'put', efilter=flt + [edzed.IfNotIitialized('c' if by else c)]))
        elif which == 'missing-input':
            edzed.Override('c').connect(input=s0)
        elif which == 'wrong-shape-not':
            edzed.Not('c').connect(s0, s0)
        elif which == 'wrong-shape-override':
            # a group of ANY size (0..3, list or tuple) where a single input is expected, on either input
            n = env.choose(4, 'group_size')
            grp = [s0] * n if env.choose(2, 'group_form') else tuple([s0] * n)
            if env.choose(2, 'which_input'):
                edzed.Override('c').connect(input=grp, override=s0)
            else:
                edzed.Override('c').connect(input=s0, override=grp)
        elif which == 'duplicate-name':
            edzed.Input('s0', initdef=1)
        elif which == 'connect-twice':
            edzed.And('c').connect(s0).connect(s0)
        elif which == 'event-unknown-dest':
            Settable('t', on_output=edzed.Event('nobody', 'put'))
        elif which == 'reserved-underscore':
            edzed.And('_mine').connect(s0)
        elif which == 'double-underscore-not':
            edzed.And('c').connect('_not__x')
        elif which == 'multiple-as-single':
            edzed.And('c').connect([s0, s0])
        elif which == 'single-as-group':
            # a user-defined block (docs/new_cblocks.rst) demanding a group of a given size / a single input
            class Custom(edzed.CBlock):
                def calc_output(self):
                    return 0

                def start(self):
                    super().start()
                    self.check_signature({'a': None, 'g': [1, 2]})
            k = env.choose(6, 'shape')
            a, g = [(s0, s0), ([s0], [s0]), ([], [s0]), (s0, []), (s0, [s0, s0, s0]), ((), (s0, s0))][k]
            Custom('c').connect(a=a, g=g)
        elif which == 'no-inputs':
            edzed.Not('c').connect()
    try:
        build()
        stage['construction'] = None
    except Exception as err:
        stage['construction'] = err
    if stage['construction'] is None:
        try:
            circ._resolver.resolve()
            circ.finalize()
            for blk in circ.getblocks():
                blk.start()
            stage['start'] = None
        except Exception as err:
            stage['start'] = err
    rejected = stage.get('construction') is not None or stage.get('start') is not None
    env.check('invalid-rejected', rejected, info=lambda: (which, stage))
    env.note('__nontrivial')
    env.obs('invalid', which, stage)


def scen_public_finalize(env):
    """Circuit.finalize() called explicitly by the application (docs/simulation.rst), not by the simulator: afterwards
    the references given by name - inputs, '_not_' shortcuts, event destinations, filter control blocks, the implicit
    control block of Event.shutdown() - are resolved, the circuit is frozen, and it still starts and works"""
    import asyncio
    from symx import vloop
    circ = fresh_circuit()
    v = env.int('v')
    s0 = edzed.Input('s0', initdef=0)
    s1 = edzed.Input('s1', initdef=1)
    sink = edzed.Input('sink', initdef=0)
    c0 = edzed.Or('c0').connect('s0', '_not_s1')
    spare = edzed.And('spare')          # never connected (an empty group): connect() after the finalisation must be refused
    by_name = env.choose(2, 'events_by_name')
    with_ctrl = env.choose(2, 'with_control_event')
    fk = env.choose(3, 'filter')
    flt = [edzed.IfOutput('_not_s0' if by_name else s1), edzed.NotIfInitialized('s0' if by_name else s0),
           edzed.DataEdit.add_output('k', '_not_s1' if by_name else s1)][fk]
    ev = edzed.Event('sink' if by_name else sink, 'put', efilter=[edzed.not_from_undef, flt])
    trig = edzed.Input('trig', initdef=0, on_output=ev)
    ctrl_ev = edzed.Event.shutdown() if with_ctrl else None       # refers to the implicit block '_ctrl' by name
    res = {}
    try:
        circ.finalize()
        res['finalize'] = None
    except Exception as err:
        res['finalize'] = err
    env.check('public-finalize', res['finalize'] is None and circ.is_finalized(), info=lambda: res)
    if res['finalize'] is not None:
        return
    blocks = {b.name: b for b in circ.getblocks()}
    try:
        ok = ev.dest is sink and c0.inputs['_'] == (s0, blocks.get('_not_s1')) and c0 in s0.oconnections \
            and blocks['_not_s1'].inputs['_'] == (s1,) and c0 in blocks['_not_s1'].oconnections
        # a filter whose control block is still a name fails (assertion / attribute error) when called
        flt({'value': 1, 'previous': 0})
    except Exception as err:
        ok = False
        res['access'] = err
    env.check('by-name-resolved', ok, info=lambda: (by_name, fk, res, sorted(blocks)))
    for what, fn in (('addblock', lambda: edzed.Input('late', initdef=0)), ('connect', lambda: spare.connect(s0)),
                     ('not-block', lambda: edzed.Not('late3')),
                     ('storage', lambda: circ.set_persistent_data({}))):
        try:
            fn()
            refused = False
        except edzed.EdzedInvalidState:
            refused = True
        except Exception as err:
            refused = ('other', err)
        env.check('frozen', refused is True, info=lambda: (what, refused))

    async def main():
        task = asyncio.create_task(circ.run_forever())
        try:
            await circ.wait_init()
            res['start'] = None
        except Exception as err:
            res['start'] = err
            try:
                await task
            except BaseException as err2:
                res['start'] = err2
            return
        trig.event('put', value=v + 1000)
        await asyncio.sleep(0)
        res['sink'] = sink.output
        if with_ctrl:
            ctrl_ev.send(trig)
            try:
                await task
            except asyncio.CancelledError:
                res['stopped'] = True
            except BaseException as err:
                res['stopped'] = err
        else:
            await circ.shutdown()
    vloop.run(main())
    env.check('starts-after-public-finalize', res.get('start') is None, info=lambda: res)
    if res.get('start') is None:
        # IfOutput: _not_s0 is True (s0 = 0) / s1 is 1 -> passes; NotIfInitialized: s0 is initialised -> dropped;
        # add_output: passes
        env.check('event-works', bool(eq_(res['sink'], 0 if fk == 1 else v + 1000)), info=lambda: (fk, res))
        if with_ctrl:
            env.check('control-event-works', res.get('stopped') is True, info=lambda: res)


def shards(tier):
    out = []
    if tier == 'quick':
        for first in options(False):
            out.append({'name': f'valid c0_unnamed={first}', 'scenario': 'scen_valid',
                        'params': {'gmax': 2, 'first': list(first), 'small': True}, 'cost': 10})
    else:
        # sized by path counts (about 600 paths/s per core): the full product of both groups up to 3 is 27 million
        # configurations per shard, so each group reaches size 3 while the other one stays at 0..1
        for first in options(False):
            out.append({'name': f'valid c0 group<=3, c1 group<=1, c0_unnamed={first}', 'scenario': 'scen_valid',
                        'params': {'gmax': 3, 'first': list(first), 'g0max': 3, 'g1max': 1}, 'cost': 225})
            for bn in (0, 1):
                out.append({'name': f'valid c0 group<=1, c1 group<=3, events_by_name={bn}, c0_unnamed={first}',
                            'scenario': 'scen_valid',
                            'params': {'gmax': 3, 'first': list(first), 'g0max': 1, 'g1max': 3, 'by_name': bn}, 'cost': 211})
            out.append({'name': f'valid+override c0_unnamed={first}', 'scenario': 'scen_valid',
                        'params': {'gmax': 1, 'first': list(first), 'with_override': True, 'g0max': 0, 'g1max': 1},
                        'cost': 46})
    for w in INVALID:
        out.append({'name': f'invalid {w}', 'scenario': 'scen_invalid', 'params': {'which': w}})
    out.append({'name': 'public finalize()', 'scenario': 'scen_public_finalize'})
    return out
