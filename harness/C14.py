"""
C14 - external events enter only a running circuit and are always marked as external.

Real code executed symbolically: ExtEvent.__init__/send, Circuit.is_ready, Block.__init__
(reserved-name check), check_name, Event.send (source stamping), SBlock.event, run_forever /
abort / shutdown (life cycle, on the virtual-time loop).

The default source and the per-call source are symbolic STRINGS (z3 sequence theory, no length
bound): "the delivered source begins with '_ext_'" is proved for all strings.  The instant of
send() is a symbolic real across a scripted life cycle (not started, task created, initialising
with a pending async init, running, stopping with a slow stop_async, finished), so every phase -
and every boundary between phases - is a path region.
"""
import asyncio
import z3
from symx.core import And_, Or_, Not_, Iff_, eq_, is_sym, SymStr, SymBool, Concretised, _wrap
from symx.edz import fresh_circuit, sync_circuit, start_sync, SinkProbe, Settable
from symx import vloop
import edzed

PROPERTY = 'C14'
LEVEL = 'model_checking'
BOUNDS = {'quick': {'strings': 'all strings (no length bound)', 'send_instant': 'any real in [0, 30] s over a '
                    'scripted life cycle: init_async 5 s, stop at 10 s, stop_async 3 s',
                    'stop causes': ['shutdown', 'abort', 'handler error', 'ctrl abort event', 'ctrl shutdown event', 'cancel() of the simulation task',
                                    'failing evaluation inside the simulation task (+0..3 loop iterations offset)']},
          'thorough': {'strings': 'all strings (no length bound)', 'send_instant': 'as quick, plus two sends per run',
                       'stop causes': ['shutdown', 'abort', 'handler error', 'ctrl abort event', 'ctrl shutdown event']}}
OUTSIDE = ["block names generated from user class names (a class literally named 'ext_...')",
           "non-str sources (TypeError path is exercised concretely only)",
           "life cycles other than the scripted one (other durations of init/stop)"]
STUBS = ["virtual-time event loop (symx/vloop.py) with a symbolic clock"]
ASSUMPTIONS = ["z3's sequence theory for PrefixOf/Concat"]
EXPECT_LABELS = {'all': ['source-prefix', 'source-origin', 'value-item', 'items-unchanged', 'retval',
                         'phase-delivery', 'reserved-name', 'internal-source']}
EXPECT_NOTES = {'all': ['start-refused-or-failed', 'sent-before-stop', 'sent-after-stop', 'sent-at-stop-instant', 'sent-during-init',
                        'sent-during-cleanup']}
FLOORS = {'quick': {'paths': 40, 'checks': 150}, 'thorough': {'paths': 80, 'checks': 300}}


def prefixed(s, p="_ext_"):
    if is_sym(s):
        return _wrap(z3.PrefixOf(z3.StringVal(p), s.z))
    return s.startswith(p)


def concat(p, s):
    if is_sym(s):
        return SymStr(z3.Concat(z3.StringVal(p), s.z))
    return p + s


class Dest(edzed.SBlock):
    def __init__(self, *a, **k):
        self.got = []
        super().__init__(*a, **k)

    def init_regular(self):
        self.set_output(0)

    def _event_x(self, **data):
        self.got.append(data)
        return ('handled', len(self.got))

    def _event_fail(self, **data):
        raise RuntimeError("handler failure")


async def _running(circ):
    task = asyncio.create_task(circ.run_forever())
    await circ.wait_init()
    return task


def scen_source(env, dest_kind):
    """source stamping and data shapes on a running circuit"""
    circ = fresh_circuit()
    d = Dest('dst') if dest_kind == 'sblock' else edzed.Input('dst', initdef=0)
    ctor_src = env.pick(['default', 'sym'], 'ctor_src')
    a = env.str('ctor_source') if ctor_src == 'sym' else None
    by_name = env.choose(2, 'dest_by_name')
    etype = 'x' if dest_kind == 'sblock' else 'put'

    async def main():
        task = await _running(circ)
        kw = {} if a is None else {'source': a}
        ev = edzed.ExtEvent('dst' if by_name else d, etype, **kw)
        call_src = env.pick(['none', 'sym'], 'call_src')
        with_value = env.choose(2, 'with_value')
        v = env.int('value')
        extra = env.int('extra')
        data = {'extra': extra, 'k2': 'text'}
        b = None
        if call_src == 'sym':
            b = env.str('call_source')
            data['source'] = b
        if dest_kind == 'input':
            with_value = 1
        r = ev.send(v, **data) if with_value else ev.send(**data)
        if dest_kind == 'sblock':
            env.check('delivered', len(d.got) == 1)
            got = d.got[0]
            src = got['source']
            env.check('source-prefix', prefixed(src), info=lambda: src)
            origin = b if b is not None else (a if a is not None else '_ext_')
            env.check('source-origin', Or_(eq_(src, origin), eq_(src, concat('_ext_', origin))),
                      info=lambda: (src, origin))
            # prefix added only when necessary
            env.check('source-minimal', Iff_(eq_(src, origin), prefixed(origin)))
            if with_value:
                env.check('value-item', eq_(got.get('value'), v))
            else:
                env.check('value-item', 'value' not in got)
            env.check('items-unchanged', And_(eq_(got['extra'], extra), got['k2'] == 'text',
                                              set(got) == {'extra', 'k2', 'source'} | ({'value'} if with_value else set())))
            env.check('retval', r == ('handled', 1))
        else:
            env.check('retval', r is True)
            env.check('value-item', eq_(d.output, v))
        if dest_kind == 'sblock':
            # falsy positional values are values too
            for special in (None, False, 0, ''):
                n0 = len(d.got)
                ev.send(special)
                env.check('value-item', len(d.got) == n0 + 1 and 'value' in d.got[-1] and d.got[-1]['value'] is special,
                          info=lambda: (special, d.got[-1]))
        # non-string sources are refused
        try:
            ev.send(source=5)
            env.check('source-type', False)
        except TypeError:
            env.check('source-type', True)
        await circ.shutdown()
    vloop.run(main())
    try:
        edzed.ExtEvent(d, 'x', source=5)
        env.check('ctor-source-type', False)
    except TypeError:
        env.check('ctor-source-type', True)


class SlowInit(edzed.AddonAsync, edzed.SBlock):
    async def init_async(self):
        await asyncio.sleep(5.0)
        self.set_output('async')

    def init_regular(self):
        if not self.is_initialized():
            self.set_output('regular')

    async def stop_async(self):
        await asyncio.sleep(3.0)

    def _event_x(self, **data):
        return 'slow-handled'


T_INIT, T_STOP, T_CLEAN = 5.0, 10.0, 13.0


def scen_phase(env, cause, two):
    circ = fresh_circuit()
    d = Dest('dst')
    dead = []          # set by instrumentation the moment the simulator itself hits an error
    slow = SlowInit('slow', init_timeout=20.0, stop_timeout=20.0)
    ctrl_ev = {'ctrl-abort': lambda: edzed.Event('_ctrl', 'abort', efilter=edzed.not_from_undef),
               'ctrl-shutdown': lambda: edzed.Event('_ctrl', 'shutdown', efilter=edzed.not_from_undef)}.get(cause)
    trig = Settable('trig', init=0, on_output=ctrl_ev()) if ctrl_ev else None
    if cause == 'calc-error':
        src = Settable('calcsrc', init=0)

        def bad(x):
            if x == 'boom':
                dead.append(True)
                raise ZeroDivisionError('calc failed')
            return x
        edzed.FuncBlock('calc', func=bad).connect(src)
    ev = edzed.ExtEvent(d, 'x')
    results = []
    yields = env.choose(4, 'yields') if cause == 'calc-error' else 0
    # phase: not started at all
    try:
        ev.send(1)
        env.check('phase-not-started', False)
    except edzed.EdzedInvalidState:
        env.check('phase-not-started', not d.got)
    times = [env.real('t_send', 0, 30)]
    if two:
        times.append(env.real('t_send2', 0, 30))

    async def sender(t, idx):
        await asyncio.sleep(t)
        for _ in range(yields):
            await asyncio.sleep(0)       # iteration-level offset within the same virtual instant
        n0 = len(d.got)
        was_dead = bool(dead)
        now = asyncio.get_running_loop().time()
        try:
            r = ev.send(idx)
            results.append((idx, t, 'delivered', r, len(d.got) - n0, was_dead))
        except edzed.EdzedInvalidState:
            results.append((idx, t, 'refused', None, len(d.got) - n0, was_dead))

    async def stopper():
        await asyncio.sleep(T_STOP)
        if cause == 'shutdown':
            await circ.shutdown()
        elif cause == 'abort':
            circ.abort(RuntimeError('aborted by harness'))
        elif cause == 'handler-error':
            try:
                d.event('fail')
            except RuntimeError:
                pass
        elif cause == 'calc-error':
            src.event('set', value='boom')       # the failing evaluation happens inside the simulation task
        elif cause == 'cancel-task':
            holder['simtask'].cancel()           # the way run_forever()'s docstring, edzed.run() and SIGTERM stop it
        else:
            trig.event('set', value=1)

    holder = {}

    async def main():
        simtask = holder['simtask'] = asyncio.create_task(circ.run_forever())
        # phase: task created, not yet running
        try:
            ev.send(2)
            env.check('phase-task-created', False)
        except edzed.EdzedInvalidState:
            env.check('phase-task-created', not d.got)
        tasks = [asyncio.create_task(sender(t, 10 + i)) for i, t in enumerate(times)]
        st = asyncio.create_task(stopper())
        await asyncio.gather(*tasks, st, return_exceptions=True)
        try:
            await simtask
        except BaseException:
            pass
        # phase: finished
        n0 = len(d.got)
        try:
            ev.send(3)
            env.check('phase-finished', False)
        except edzed.EdzedInvalidState:
            env.check('phase-finished', len(d.got) == n0 and not circ.is_ready())
    vloop.run(main())
    for idx, t, what, r, ndeliv, was_dead in results:
        if was_dead:
            # the simulation had already failed (instrumented ground truth, iteration-exact): must be refused
            env.check('refused-once-dead', what == 'refused' and ndeliv == 0, info=lambda: (cause, yields, results))
        before = t < T_STOP          # forks: regions before / at / after the stop instant
        if before:
            env.note('sent-before-stop')
            if t < T_INIT:
                env.note('sent-during-init')
            env.check('phase-delivery', what == 'delivered' and ndeliv == 1 and r is not None,
                      info=lambda: (cause, results))
        elif t > T_STOP:
            env.note('sent-after-stop')
            if t < T_CLEAN:
                env.note('sent-during-cleanup')
            env.check('phase-delivery', what == 'refused' and ndeliv == 0, info=lambda: (cause, results))
        else:
            env.note('sent-at-stop-instant')
            # same instant as the stop request: either order is legal, but refused <=> nothing delivered
            env.check('phase-delivery', (what == 'refused') == (ndeliv == 0) and ndeliv <= 1,
                      info=lambda: (cause, results))
    env.check('all-sent', len(results) == len(times))
    env.obs('phase', cause, [(w, n) for _, _, w, _, n, _ in results])


def scen_names(env):
    """user-chosen block names cannot begin with an underscore -> internal sources never look external"""
    circ = sync_circuit()
    name = env.str('name')
    kind = env.pick(['sblock', 'cblock'], 'kind')
    try:
        if kind == 'sblock':
            Settable(name)
        else:
            edzed.Not(name)
        created = True
    except Concretised:
        created = True        # passed every name check, reached the registry (dict lookup needs a hash)
        env.poisoned = None   # expected here: not an inconclusive path
    except ValueError:
        created = False
    und = prefixed(name, '_')
    if is_sym(name):
        empty = _wrap(z3.Length(name.z) == 0)
    else:
        empty = (name == '')
    env.check('reserved-name', Iff_(created, And_(Not_(und), Not_(empty))), info=lambda: name)
    for bad in (5, None, b'x'):
        try:
            Settable(bad)
            env.check('name-type', bad is None)    # None = automatic name
        except TypeError:
            env.check('name-type', bad is not None)
    # internal events are stamped with the sender's name, whatever the data says
    circ = sync_circuit()
    sink = []
    p = SinkProbe('p', sink=sink)
    src = Settable('sender')
    ev = edzed.Event(p, 'e')
    start_sync(circ)
    forged = env.str('forged')
    ev.send(src, source=forged, value=1)
    env.check('internal-source', len(sink) == 1 and sink[0][2]['source'] == 'sender')


def scen_never_started(env, why):
    """'before the start ... it raises EdzedInvalidState and delivers nothing' - also when a start was ATTEMPTED and
    refused or failed at once: the eager-task check of run_forever() (documented RuntimeError), abort() before the
    start, an empty ... no: a circuit whose finalisation fails (unknown block name)."""
    circ = fresh_circuit()
    d = Dest('d')
    v = env.int('v')
    if why == 'unresolved':
        edzed.Not('n').connect('no_such_block')
    res = {}

    async def main():
        loop = asyncio.get_running_loop()
        if why == 'eager':
            loop.set_task_factory(asyncio.eager_task_factory)
        if why == 'abort-first':
            circ.abort(OSError('early'))
        try:
            await circ.run_forever()
            res['start'] = 'returned'
        except BaseException as err:
            res['start'] = err
        if why == 'eager':
            loop.set_task_factory(None)
        for attempt in range(2):
            try:
                res[attempt] = edzed.ExtEvent(d, 'x').send(v)
            except edzed.EdzedInvalidState as err:
                res[attempt] = err
            await asyncio.sleep(0)
        res['ready'] = circ.is_ready()
    vloop.run(main())
    env.note('start-refused-or-failed')
    env.check('start-failed', isinstance(res['start'], {'eager': RuntimeError, 'abort-first': OSError,
                                                          'unresolved': Exception}[why]), info=lambda: res)
    env.check('phase-delivery', all(isinstance(res[a], edzed.EdzedInvalidState) for a in range(2)) and d.got == []
              and res['ready'] is False, info=lambda: (why, res, d.got))


def scen_other_circuit(env, a_state):
    """the circuit that must be running is the DESTINATION's: an ExtEvent created for a block of circuit A - which was
    never started / has been stopped - while the application has meanwhile built and started a new circuit B
    (edzed.reset_circuit()) must still raise EdzedInvalidState and deliver nothing"""
    circ_a = fresh_circuit()
    d = Dest('d')
    ev = edzed.ExtEvent(d, 'x')
    v = env.int('v')
    res = {}

    async def main():
        if a_state == 'stopped':
            ta = asyncio.create_task(circ_a.run_forever())
            await circ_a.wait_init()
            res['while-running'] = ev.send(v)
            await circ_a.shutdown()
        n_before = len(d.got)
        circ_b = fresh_circuit()
        d2 = Dest('d')
        tb = asyncio.create_task(circ_b.run_forever())
        await circ_b.wait_init()
        try:
            res['send'] = ev.send(v)
        except edzed.EdzedInvalidState as err:
            res['send'] = err
        except Exception as err:
            res['send'] = ('other exception', err)
        res['delivered'] = len(d.got) - n_before
        res['b-untouched'] = d2.got == [] and circ_b.error is None
        await circ_b.shutdown()
    vloop.run(main())
    env.note('destination-in-another-circuit')
    if a_state == 'stopped':
        env.check('retval', res['while-running'] == ('handled', 1), info=lambda: res)
    env.check('phase-delivery', isinstance(res['send'], edzed.EdzedInvalidState) and res['delivered'] == 0
              and res['b-untouched'], info=lambda: (a_state, res, d.got))


def shards(tier):
    out = [{'name': 'source sblock', 'scenario': 'scen_source', 'params': {'dest_kind': 'sblock'}},
           {'name': 'source input', 'scenario': 'scen_source', 'params': {'dest_kind': 'input'}},
           {'name': 'names', 'scenario': 'scen_names'}]
    for a_state in ('never-started', 'stopped'):
        out.append({'name': f'destination in another circuit ({a_state})', 'scenario': 'scen_other_circuit',
                    'params': {'a_state': a_state}})
    for why in ('eager', 'abort-first', 'unresolved'):
        out.append({'name': f'never started: {why}', 'scenario': 'scen_never_started', 'params': {'why': why}})
    for cause in ('shutdown', 'abort', 'handler-error', 'ctrl-abort', 'ctrl-shutdown', 'calc-error', 'cancel-task'):
        out.append({'name': f'phase {cause}', 'scenario': 'scen_phase', 'params': {'cause': cause, 'two': False}})
        if tier == 'thorough':
            out.append({'name': f'phase {cause} x2', 'scenario': 'scen_phase', 'params': {'cause': cause, 'two': True},
                        'cost': 5})
    return out
