"""
C20 - Counter arithmetic is exact and stays within the modulo range.

Real code executed symbolically: Counter.__init__/_setmod/_event_inc/_event_dec/_event_put/
_event_reset, init_from_value, _restore_state, SBlock.event (handler dispatch, parameter-error
path), SBlock.set_output, Circuit.init_sblock, AddonPersistence.init_from_persistent_data.

Inductive step: the state of a Counter is its output alone, so "from ANY state v, ANY single
event with ANY amount leaves output = reference result in [0, M) and returns it" covers
histories of any length.  Sequences are explored in addition as a cross-check.
"""
import z3
from symx.core import And_, Or_, Not_, eq_, is_sym, zof, _wrap, _num
from symx.edz import fresh_circuit, StubQueue
import edzed
from edzed import simulator

PROPERTY = 'C20'
LEVEL = 'model_checking'

MODULI = [None, 1, 2, 7, 10, 2.5, 3, 12, 1000003]
ETYPES = ['inc', 'dec', 'put', 'reset']

BOUNDS = {
    'quick': {'moduli': MODULI[:6], 'step': 'one event from an arbitrary state, unbounded ints/reals',
              'sequence_len': 3},
    'thorough': {'moduli': MODULI, 'step': 'one event from an arbitrary state, unbounded ints/reals',
                 'sequence_len': 5},
}
OUTSIDE = ["symbolic (non-constant) modulo: non-linear", "negative modulo (statement: positive M)",
           "float rounding of 2.5-modulo arithmetic (reals are exact rationals)"]
STUBS = ["Circuit.sblock_queue = list-backed stub (no event loop needed for a Counter)"]
ASSUMPTIONS = ["amounts/values are ints or reals (not other numeric types)"]
EXPECT_LABELS = {'all': ['init-reduced', 'put-result', 'step-result', 'step-range', 'noparam-typeerror',
                         'restore-reduced', 'seq-result', 'modulo0-refused']}
FLOORS = {'quick': {'paths': 100, 'checks': 300}, 'thorough': {'paths': 1000, 'checks': 3000}}


def reduced(env, out, x, M):
    """Reference: out is x reduced into [0, M) - stated through the mathematical definition
    of floor (q integer, q <= x/M < q+1, out = x - M*q), not through a % operator."""
    if M is None:
        return eq_(out, x)
    q = env.floor(x / M)
    return And_(eq_(out, x - M * q), 0 <= out, out < M)


def mkcounter(env, M, initdef, persistent=None):
    circ = fresh_circuit()
    circ.sblock_queue = StubQueue()
    kw = {}
    if persistent is not None:
        kw['persistent'] = True
    c = edzed.Counter('cnt', modulo=M, initdef=initdef, **kw)
    if persistent is not None:
        circ.persistent_dict = {c.key: persistent}
    circ.finalize()
    simulator.Circuit.init_sblock(c, full=True)
    return circ, c


def symnum(env, name, kind):
    return env.int(name) if kind == 'int' else env.real(name)


def scen_step(env, M, kind):
    """init + arbitrary state + one arbitrary event."""
    i0 = symnum(env, 'initdef', kind)
    circ, c = mkcounter(env, M, i0)
    env.check('init-reduced', reduced(env, c.output, i0, M))
    if M is not None:
        env.check('init-range', And_(0 <= c.output, c.output < M))
    v = symnum(env, 'state', kind)
    r = c.event('put', value=v)
    env.check('put-result', And_(reduced(env, c.output, v, M), eq_(r, c.output)))
    s0 = c.output
    et = env.pick(ETYPES + ['put-noparam', 'unknown'], 'etype')
    if et == 'put-noparam':
        try:
            c.event('put')
            env.check('noparam-typeerror', False)
        except TypeError:
            env.check('noparam-typeerror',
                      And_(circ.error is None, eq_(c.output, s0)))
        # the block still works
        r = c.event('inc')
        env.check('after-noparam-inc', And_(reduced(env, c.output, s0 + 1, M), eq_(r, c.output)))
        return
    if et == 'unknown':
        try:
            c.event('frobnicate', amount=1)
            env.check('unknown-event', False)
        except edzed.EdzedUnknownEvent:
            env.check('unknown-event', And_(circ.error is None, eq_(c.output, s0)))
        return
    with_amount = env.choose(2, 'with_amount')
    data = {}
    a = 1
    if et in ('inc', 'dec') and with_amount:
        ak = env.pick(['int', 'real'], 'amount_kind') if kind == 'int' else 'real'
        a = symnum(env, 'amount', ak)
        data['amount'] = a
    if et == 'put':
        a = symnum(env, 'value', kind)
        data['value'] = a
        if with_amount:
            data['junk'] = 1      # extra data items are ignored
    if et == 'reset' and with_amount:
        data['amount'] = 5        # ignored by reset
    r = c.event(et, **data)
    exp = {'inc': lambda: s0 + a, 'dec': lambda: s0 - a, 'put': lambda: a, 'reset': lambda: i0}[et]()
    env.obs(et, M, 'out', c.output)
    env.check('step-result', And_(reduced(env, c.output, exp, M), eq_(r, c.output)))
    if M is not None:
        env.check('step-range', And_(0 <= c.output, c.output < M))
    env.check('step-noerror', circ.error is None)


def scen_restore(env, M, kind):
    """persistent restore of an arbitrary (possibly out-of-range) value, then reset."""
    i0 = symnum(env, 'initdef', kind)
    p = symnum(env, 'persistent', kind)
    circ, c = mkcounter(env, M, i0, persistent=p)
    env.check('restore-reduced', reduced(env, c.output, p, M))
    r = c.event('reset')
    env.check('reset-after-restore', And_(reduced(env, c.output, i0, M), eq_(r, c.output)))
    # sync_state: storage holds the current state
    env.check('restore-saved', eq_(circ.persistent_dict[c.key], c.output))


def scen_seq(env, M, n):
    """sequences of n events with symbolic integer amounts (cross-check of the induction)."""
    i0 = env.int('initdef')
    circ, c = mkcounter(env, M, i0)
    for k in range(n):
        s0 = c.output
        et = env.pick(ETYPES, f'e{k}')
        if et in ('inc', 'dec'):
            if env.choose(2, f'amt{k}'):
                a = env.int(f'a{k}')
                r = c.event(et, amount=a)
            else:
                a = 1
                r = c.event(et)
            exp = s0 + a if et == 'inc' else s0 - a
        elif et == 'put':
            a = env.int(f'v{k}')
            r = c.event('put', value=a)
            exp = a
        else:
            r = c.event('reset')
            exp = i0
        env.check('seq-result', And_(reduced(env, c.output, exp, M), eq_(r, c.output)))
    env.check('seq-noerror', circ.error is None)


def scen_ctor(env):
    for z in (0, 0.0):
        fresh_circuit()
        try:
            edzed.Counter('c0', modulo=z)
            env.check('modulo0-refused', False)
        except ValueError:
            env.check('modulo0-refused', True)
    # a symbolic modulo that may be zero must be refused exactly when it is zero
    fresh_circuit()
    m = env.int('modulo', -3, 3)
    try:
        edzed.Counter('c1', modulo=m)
        env.check('modulo-sym-accepted', m != 0)
    except ValueError:
        env.check('modulo-sym-refused', eq_(m, 0))


def shards(tier):
    mods = BOUNDS[tier]['moduli']
    out = [{'name': 'ctor', 'scenario': 'scen_ctor', 'params': {}}]
    for M in mods:
        kinds = ['int', 'real'] if isinstance(M, (int, type(None))) else ['real']
        for kind in kinds:
            out.append({'name': f'step M={M} {kind}', 'scenario': 'scen_step',
                        'params': {'M': M, 'kind': kind}})
            out.append({'name': f'restore M={M} {kind}', 'scenario': 'scen_restore',
                        'params': {'M': M, 'kind': kind}})
    n = BOUNDS[tier]['sequence_len']
    for M in mods[:5] if tier == 'quick' else mods:
        if isinstance(M, float):
            continue
        out.append({'name': f'seq M={M} n={n}', 'scenario': 'scen_seq', 'params': {'M': M, 'n': n},
                    'cost': 5})
    return out
