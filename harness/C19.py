"""
C19 - duration strings and numbers convert consistently in both directions.

Real code executed symbolically: timeunits._convert/convert/time_period/timestr/timestr_approx
and the real compiled patterns _RE_DURATION / _RE_ISO_DURATION.

(a) languages: the real patterns are translated (re._parser) into z3 regexes at run time and
    proved equivalent - for strings of ANY length - to grammars written from docs/utils.rst;
(b) arithmetic: numerals are *tokens* standing for unbounded symbolic integers (and k/10^p
    fractions); the real re.fullmatch / str.replace run on the token text, the module-level
    float() shim maps tokens back to their terms; result == 86400 d + 3600 h + 60 m + s exactly,
    ValueError exactly under the documented conditions;
(c) time_period; (d) convert(timestr(n)) == n for every integer 0 <= n <= 10^15 and float
    round trip within half a unit of the requested precision; timestr_approx within half of
    its band's rounding step.
"""
import re
import z3
from symx.core import And_, Or_, Not_, Iff_, If_, eq_, truthy, is_sym, SymBool, SymReal, SymInt, zof, _wrap
from symx import rez3
from symx.tokens import Tokens, Shims
from edzed.utils import timeunits as tu
import edzed

PROPERTY = 'C19'
LEVEL = 'model_checking'
BOUNDS = {
    'quick': {'numerals': 'unbounded non-negative integers; fractions k/10^p, p in {1,3}',
              'timestr_int': '0 <= n <= 10^15', 'timestr_float': '0 <= x <= 10^9, prec 0..6 (quick: 0,3,6)',
              'approx': '0 <= x <= 10^8'},
    'thorough': {'numerals': 'unbounded non-negative integers; fractions k/10^p, p in {1,2,3,6}',
                 'timestr_int': '0 <= n <= 10^15', 'timestr_float': '0 <= x <= 10^9, prec 0..6',
                 'approx': '0 <= x <= 10^8'},
}
OUTSIDE = ["IEEE rounding of float() / float arithmetic (reals are exact)", "the digit-to-number mapping of float() "
           "itself (tokens; the patterns are checked to constrain digits only through \\d+ atoms)",
           "non-ASCII digits/whitespace (patterns carry re.ASCII)", "timestr sep other than '' and ' '"]
STUBS = ["timeunits.int / timeunits.float rebound (module globals) to proxy-aware shims for the duration of a path",
         "numeral tokens (symx/tokens.py)", "round() = any value within half a unit in the last place"]
ASSUMPTIONS = ["str formatting '%.pf' of a value that is a multiple of 10^-p is exact (checked per use: label token-exact)"]
EXPECT_LABELS = {'all': ['lang-traditional', 'lang-iso', 'convert-value', 'convert-error', 'period', 'timestr-int',
                         'timestr-float', 'approx', 'malformed', 'token-soundness']}
FLOORS = {'quick': {'paths': 300, 'checks': 500}, 'thorough': {'paths': 1000, 'checks': 2000}}

# ---- grammars written from the documentation (Python regex syntax, ASCII) -------------------
_WS = r'[ \t\n\r\x0b\x0c]*'
_N = r'[0-9]+(?:[.,][0-9]+)?'
SPEC_TRAD = re.compile(
    _WS + rf'(?:{_N}{_WS}[dD])?' + _WS + rf'(?:{_N}{_WS}[hH])?' + _WS + rf'(?:{_N}{_WS}[mM])?' + _WS
    + rf'(?:{_N}{_WS}[sS]|{_N}{_WS})?' + _WS, re.ASCII)
SPEC_ISO = re.compile(
    _WS + rf'P(?:{_N}Y)?(?:{_N}M)?(?:{_N}D)?(?:T(?:{_N}H)?(?:{_N}M)?(?:{_N}S)?)?' + _WS, re.ASCII)


def in_lang(env, s, pat):
    if env.symbolic:
        zr, _ = rez3.to_z3(pat)
        return SymBool(z3.InRe(s.z, zr))
    return pat.fullmatch(s) is not None


def scen_lang(env, which):
    impl, spec = {'traditional': (tu._RE_DURATION, SPEC_TRAD), 'iso': (tu._RE_ISO_DURATION, SPEC_ISO)}[which]
    s = env.str('s')
    a = in_lang(env, s, impl)
    b = in_lang(env, s, spec)
    env.check('lang-' + which, Iff_(a, b), info=lambda: s)
    # token soundness: digits are constrained only through unbounded \d+ atoms
    env.check('token-soundness', rez3.digit_atoms_unbounded(impl))


MALFORMED = ['', ' ', 'd', 'h', 's', '1x', '-1s', '+1s', '1..2s', '1.s', '.5s', '1,s', '1d 2d', '2h1d', '3s2m',
             '1m2h', 'P', 'PT', 'P1', 'p1d', 'P1dT', 'PT1h', 'P1DT1H1', 'P1H', 'PT1D', 'P1Y', 'P1M', 'P2M1D', 'P0,5Y',
             'P1.5DT1H', 'PT1.5H2M', '1.5h2m', '1.5d3s', '1,5m 2', '1d,2h', 'one', '1 0 s', 'P 1D', 'P1D T1H', '1e3', '0x10',
             'PT1H1.5M3S', '١s']
WELLFORMED = {'0': 0.0, '0s': 0.0, '1d2h3m4.5s': 93784.5, 'P1DT2H3M4.5S': 93784.5, ' 2D 12h ': 216000.0, '1.25h': 4500.0,
              '20h15m10': 72910.0, '72H': 259200.0, 'P0Y0M1D': 86400.0, 'PT0,5S': 0.5, '1,5m': 90.0, 'P1D': 86400.0,
              '1 d 1 H 1 m 1 S': 90061.0}


def scen_malformed(env):
    for i, s in enumerate(MALFORMED):
        try:
            r = tu.convert(s)
            env.check('malformed', False, info=lambda: (s, r))
        except ValueError:
            env.check('malformed', True)
    for s, v in WELLFORMED.items():
        env.check('wellformed', tu.convert(s) == v and isinstance(tu.convert(s), float), info=lambda: s)
    for bad in ([], (), b'1s', 1j):
        try:
            tu.time_period(bad)
            env.check('period-type', False)
        except TypeError:
            env.check('period-type', True)


UNITS = [('d', 86400), ('h', 3600), ('m', 60), ('s', 1)]


def scen_convert(env, iso, present, frac_p):
    """present: bitmask of units (ISO: Y, Mo, D, H, Mi, S = 6 bits; traditional: d h m s = 4 bits)"""
    tok = Tokens(env) if env.symbolic else None
    if tok:
        env.format_hook = tok.hook
    names = ['Y', 'Mo', 'D', 'H', 'Mi', 'S'] if iso else ['d', 'h', 'm', 's']
    scale = {'Y': None, 'Mo': None, 'D': 86400, 'H': 3600, 'Mi': 60, 'S': 1, 'd': 86400, 'h': 3600, 'm': 60, 's': 1}
    pres = [n for i, n in enumerate(names) if present >> i & 1]
    frac_at = env.pick(['none'] + pres, 'frac_at') if frac_p and pres else 'none'
    mark = env.pick(['.', ','], 'mark') if frac_at != 'none' else '.'
    vals = {}
    text = {}
    for n in pres:
        ip = env.int('n_' + n, 0)
        if n == frac_at:
            k = env.int('k_' + n, 0, 10 ** frac_p - 1)
            vals[n] = ip + k / (10 ** frac_p)
            text[n] = f"{ip}{mark}{k:0{frac_p}d}"
        else:
            vals[n] = ip
            text[n] = f"{ip}"
    if iso:
        s = 'P' + ''.join(text[n] + {'Y': 'Y', 'Mo': 'M', 'D': 'D'}[n] for n in pres if n in ('Y', 'Mo', 'D'))
        tpart = ''.join(text[n] + {'H': 'H', 'Mi': 'M', 'S': 'S'}[n] for n in pres if n in ('H', 'Mi', 'S'))
        t_form = env.choose(2, 'bare_T') if not tpart else 0
        if tpart or t_form:
            s += 'T' + tpart
        pad = env.pick(['', ' '], 'pad')
        s = pad + s + pad
    else:
        style = env.choose(3, 'style')
        parts = []
        for n in pres:
            u = n.upper() if style == 1 else n
            if n == 's' and env.choose(2, 'omit_s'):
                u = ''
            gap = ' ' if style == 2 else ''
            parts.append(text[n] + gap + u)
        s = (' ' if style == 2 else '').join(parts)
        if style == 2:
            s = '  ' + s + '\t'
    # reference (documented rules)
    smallest = pres[-1] if pres else None
    err = []
    if not pres:
        err.append('no element')
    if frac_at != 'none' and frac_at != smallest:
        err.append('fraction not in the smallest unit')
    expected = 0
    cal_nonzero = False
    for n in pres:
        if scale[n] is None:
            cal_nonzero = Or_(cal_nonzero, Not_(eq_(vals[n], 0)))
        else:
            expected = expected + vals[n] * scale[n]
    env.obs('convert', s if not env.symbolic else '<tokens>', pres, frac_at)

    def run():
        try:
            return ('ok', tu.convert(s))
        except ValueError as e:
            return ('err', str(e))
    if env.symbolic:
        with Shims(tu, tok):
            kind, res = run()
    else:
        kind, res = run()
    if err:
        env.check('convert-error', kind == 'err', info=lambda: (s, kind, res))
        return
    if kind == 'err':
        # only legitimate when a calendar unit is non-zero
        env.check('convert-error', cal_nonzero if is_sym(cal_nonzero) else bool(cal_nonzero),
                  info=lambda: (s, res))
        env.note('calendar-rejected')
    else:
        env.check('convert-cal', Not_(cal_nonzero), info=lambda: (s, res))
        ok = eq_(res, expected) if env.symbolic else abs(res - expected) <= 1e-9 * max(1.0, abs(expected))
        env.check('convert-value', ok, info=lambda: (s, res, expected))
        env.check('convert-type', isinstance(res, float))


def scen_call_sites(env):
    """'every duration accepted by edzed': the block arguments that take a duration accept the same notations and end up
    as the same number of seconds as convert() gives (concrete strings; the arithmetic itself is scen_convert's):
    Repeat interval, Timer t_on/t_off, per-event 'duration', init_timeout / stop_timeout, expiration, guard_time,
    InputExp duration.  The FSM durations are observed through the timer actually armed on the virtual loop."""
    import asyncio
    from symx import vloop
    from symx.edz import fresh_circuit, live_block_timers
    text = env.pick(['1m30s', 'PT1M30S', '1,5m', ' 90 ', 'P0DT0H1.5M', '0h 1M 30S'], 'notation')
    want = 90.0
    number = env.pick([90, 90.0], 'number')
    circ = fresh_circuit()
    p = edzed.Input('p', initdef=0)

    class A(edzed.AddonAsync, edzed.SBlock):
        def init_regular(self):
            self.set_output(0)

        async def init_async(self):
            pass

        async def stop_async(self):
            pass
    a = A('a', init_timeout=text, stop_timeout=text)
    cnt = edzed.Counter('cnt', persistent=True, expiration=text)
    circ.set_persistent_data({})
    rep = edzed.Repeat('rep', dest=p, etype='put', interval=text)
    async def coro(v):
        return v
    oa = edzed.OutputAsync('oa', coro=coro, mode='wait', guard_time=text, stop_timeout='1h', on_error=None)
    tmr = edzed.Timer('tmr', t_on=text, t_off=number)
    ie = edzed.InputExp('ie', duration=text, expired='X', initdef=1)
    tmr2 = edzed.Timer('tmr2')
    env.check('call-sites', a.init_timeout == want and a.stop_timeout == want and cnt.expiration == want
              and rep._interval == want and oa._guard_time == want and oa.stop_timeout == 3600.0,
              info=lambda: (text, a.init_timeout, a.stop_timeout, cnt.expiration, rep._interval, oa._guard_time))
    res = {}

    async def main():
        loop = asyncio.get_running_loop()
        asyncio.create_task(circ.run_forever())
        await circ.wait_init()
        t0 = loop.time()
        tmr.event('start')
        tmr2.event('start', duration=text)
        res['due'] = sorted(h.when() - t0 for h in live_block_timers(loop, circ))
        await asyncio.sleep(89.0)
        res['on89'] = (tmr.output, tmr2.output, ie.output)
        await asyncio.sleep(2.0)
        res['on91'] = (tmr.output, tmr2.output, ie.output)
        await circ.shutdown()
    vloop.run(main())
    # three timers pending after the two starts: ie (armed at init), tmr, tmr2 - all due 90 s after they were armed
    env.check('call-sites-fsm', res['due'] == [want, want, want] and res['on89'] == (True, True, 1)
              and res['on91'] == (False, False, 'X'), info=lambda: (text, res))


def scen_period(env):
    kind = env.pick(['real', 'int', 'none', 'str', 'bool'], 'kind')
    if kind == 'none':
        env.check('period', tu.time_period(None) is None)
        return
    if kind == 'str':
        env.check('period', tu.time_period('1m30s') == 90.0 and tu.time_period('P1DT1S') == 86401.0)
        try:
            tu.time_period('')
            env.check('period-empty', False)
        except ValueError:
            env.check('period-empty', True)
        return
    if kind == 'bool':
        env.check('period', tu.time_period(True) == 1.0 and tu.time_period(False) == 0.0)
        return
    x = env.real('x') if kind == 'real' else env.int('x')
    if env.symbolic:
        with Shims(tu, Tokens(env)):
            r = tu.time_period(x)
    else:
        r = tu.time_period(x)
    exp = If_(x < 0, 0, x) if is_sym(x) else max(0, x)
    env.check('period', And_(eq_(r, exp), r >= 0), info=lambda: (x, r))
    env.check('period-type', isinstance(r, float))


def _with_tokens(env, fn):
    if env.symbolic:
        tok = Tokens(env)
        env.format_hook = tok.hook
        with Shims(tu, tok):
            r = fn()
        for proxy, p in tok.exact_claims:
            scaled = proxy * (10 ** p)
            env.check('token-exact', eq_(scaled, env.floor(scaled)))
        return r
    env.check('token-exact', True)
    return fn()


def scen_timestr_int(env, sep):
    n = env.int('n', 0, 10 ** 15)
    r = _with_tokens(env, lambda: tu.convert(tu.timestr(n, sep=sep)))
    env.check('timestr-int', eq_(r, n), info=lambda: (n, r))
    neg = env.int('neg', None, -1)
    try:
        tu.timestr(neg)
        env.check('timestr-negative', False)
    except ValueError:
        env.check('timestr-negative', True)


def scen_timestr_float(env, prec):
    x = env.real('x', 0, 10 ** 9)

    def f():
        s = tu.timestr(x, prec=prec)
        return tu.convert(s)
    r = _with_tokens(env, f)
    half = 0.5 * 10 ** -prec
    d = r - x
    if env.symbolic:
        from fractions import Fraction
        h = Fraction(1, 2 * 10 ** prec)
        ok = And_(d <= h, -d <= h)
    else:
        ok = abs(d) <= half * (1 + 1e-9) + 1e-9 * abs(x)
    env.check('timestr-float', ok, info=lambda: (x, r))


APPROX_BANDS = [   # (upper bound of band (exclusive), rounding step)  - table in the source comments / docs
    (1, 0.001), (10, 0.01), (60, 0.1), (36000, 1), (864000, 60), (None, 3600)]


def scen_approx(env, kind):
    x = env.real('x', 0, 10 ** 8) if kind == 'real' else env.int('x', 0, 10 ** 8)
    band = None
    for hi, step in APPROX_BANDS:
        if kind == 'int' and step < 1:
            continue
        if hi is None or x < hi:       # forks: the documented bands
            band = (hi, step)
            break
    r = _with_tokens(env, lambda: tu.convert(tu.timestr_approx(x)))
    step = band[1]
    d = r - x
    if env.symbolic:
        from fractions import Fraction
        h = Fraction(step).limit_denominator(10 ** 6) / 2
        ok = And_(d <= h, -d <= h)
        if kind == 'int' and step == 1:
            ok = eq_(r, x)
    else:
        ok = abs(d) <= step / 2 * (1 + 1e-9) + 1e-9
    env.note(f'approx-band-{band[0]}')
    env.check('approx', ok, info=lambda: (x, r, band))


def shards(tier):
    out = [{'name': 'lang traditional', 'scenario': 'scen_lang', 'params': {'which': 'traditional'}},
           {'name': 'lang iso', 'scenario': 'scen_lang', 'params': {'which': 'iso'}},
           {'name': 'malformed', 'scenario': 'scen_malformed'},
           {'name': 'time_period', 'scenario': 'scen_period'},
           {'name': 'durations as block arguments', 'scenario': 'scen_call_sites'}]
    fps = [0, 1, 3] if tier == 'quick' else [0, 1, 2, 3, 6]
    for iso in (False, True):
        nbits = 6 if iso else 4
        for present in range(2 ** nbits):
            for fp in fps:
                if fp and not present:
                    continue
                if tier == 'quick' and iso and fp == 1:
                    continue
                out.append({'name': f"convert {'iso' if iso else 'trad'} present={present:0{nbits}b} frac_p={fp}",
                            'scenario': 'scen_convert', 'params': {'iso': iso, 'present': present, 'frac_p': fp},
                            'cost': bin(present).count('1') + 1})
    for sep in ('', ' '):
        out.append({'name': f'timestr int sep={sep!r}', 'scenario': 'scen_timestr_int', 'params': {'sep': sep}})
    for prec in ([0, 3, 6] if tier == 'quick' else range(7)):
        out.append({'name': f'timestr float prec={prec}', 'scenario': 'scen_timestr_float', 'params': {'prec': prec},
                    'cost': 5})
    for kind in ('real', 'int'):
        out.append({'name': f'timestr_approx {kind}', 'scenario': 'scen_approx', 'params': {'kind': kind}, 'cost': 8})
    return out
