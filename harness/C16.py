"""
C16 - event filters form an ordered pipeline that can edit or veto an event.

Real code executed symbolically: Event.send (filter loop), not_from_undef, Edge.__init__/__call__,
Delta, IfOutput, IfNotIitialized, DataEdit.* (+ _dualmethod), SBlock.event.

Edge: all four flags, previous and value are symbolic -> the whole truth table is one validity
query per path region.  Delta: symbolic delta and value sequence, oracle tracks the last
*passed* value.  DataEdit: solver-enumerated chains of operations over keys {a,b,c} with
symbolic values, compared with the same dictionary operations applied left to right.
"""
import z3
from symx.core import And_, Or_, Not_, Iff_, If_, eq_, truthy, is_sym
from symx.edz import sync_circuit, start_sync, SinkProbe, Settable
import edzed
from edzed import UNDEF

PROPERTY = 'C16'
LEVEL = 'model_checking'
BOUNDS = {
    'quick': {'edge': 'all flags/previous/value symbolic', 'delta_len': 4, 'dataedit_chain': 2,
              'pipeline_len': 3},
    'thorough': {'edge': 'all flags/previous/value symbolic', 'delta_len': 6, 'dataedit_chain': 3,
                 'pipeline_len': 3},
}
OUTSIDE = ["DataEdit keys outside {a,b,c,value,source}", "filters raising exceptions other than KeyError",
           "Delta with non-numeric values", "DataEdit chains longer than the bound (statement: <= 4)"]
STUBS = ["Circuit.sblock_queue = list-backed stub; start sequence = real resolver/finalize/init methods called directly"]
ASSUMPTIONS = ["Delta: delta >= 0", "truthiness of an integer value = (value != 0)"]
EXPECT_LABELS = {'all': ['edge', 'nfu', 'delta-step', 'delta-induct', 'dataedit', 'pipeline-data', 'ifoutput-undef', 'ifoutput-data',
                         'pipeline-ret', 'ifoutput', 'ifnotinit']}
EXPECT_NOTES = {'all': ['control-true', 'control-false', 'two-deliveries-two-control-blocks']}
FLOORS = {'quick': {'paths': 500, 'checks': 1000}, 'thorough': {'paths': 5000, 'checks': 10000}}


def dict_eq(got, exp):
    if set(got) != set(exp):
        return False
    return And_(*[eq_(got[k], exp[k]) for k in exp])


def scen_edge(env):
    rise, fall, ufall = env.bool('rise'), env.bool('fall'), env.bool('u_fall')
    urise_given = env.choose(2, 'u_rise_given')
    urise = env.bool('u_rise') if urise_given else None
    f = edzed.Edge(rise=rise, fall=fall, u_rise=urise, u_fall=ufall)
    prev_undef = env.choose(2, 'prev_undef')
    prev = UNDEF if prev_undef else env.int('previous')
    val = env.int('value')
    vkind = env.choose(2, 'value_kind')
    if vkind:
        val = env.bool('value_b')
    got = f({'previous': prev, 'value': val, 'source': 'x'})
    vt = truthy(val)
    eff_urise = urise if urise_given else rise
    if prev_undef:
        exp = Or_(And_(vt, eff_urise), And_(Not_(vt), ufall))
    else:
        pt = truthy(prev)
        exp = Or_(And_(Not_(pt), vt, rise), And_(pt, Not_(vt), fall))
    env.obs('edge', got)
    env.check('edge', Iff_(truthy(got), exp))
    env.check('edge-type', isinstance(got, bool))


EDGE_POOL = [None, False, True, '', 'x', 0.0, 2.5, (), (0,), 0, 1, 2]


def scen_edge_forms(env):
    """Edge: every way of giving the flags (keywords, positional order rise/fall/u_rise/u_fall, omitted = documented
    defaults rise=False, fall=False, u_rise=None -> rise, u_fall=False) x previous/value over objects of any type
    (only their truth value counts)"""
    flags = {'rise': bool(env.choose(2, 'rise')), 'fall': bool(env.choose(2, 'fall')),
             'u_rise': [None, False, True][env.choose(3, 'u_rise')], 'u_fall': bool(env.choose(2, 'u_fall'))}
    form = env.pick(['keywords', 'positional', 'omit-defaults'], 'form')
    if form == 'keywords':
        f = edzed.Edge(**flags)
    elif form == 'positional':
        f = edzed.Edge(flags['rise'], flags['fall'], flags['u_rise'], flags['u_fall'])
    else:
        # every flag that has its default value is left out
        defaults = {'rise': False, 'fall': False, 'u_rise': None, 'u_fall': False}
        f = edzed.Edge(**{k: v for k, v in flags.items() if v != defaults[k] or (k == 'u_rise' and v is not None)})
    prev_undef = env.choose(2, 'prev_undef')
    prev = UNDEF if prev_undef else EDGE_POOL[env.choose(len(EDGE_POOL), 'previous')]
    val = EDGE_POOL[env.choose(len(EDGE_POOL), 'value')]
    got = f({'previous': prev, 'value': val, 'source': 'x'})
    eff_urise = flags['rise'] if flags['u_rise'] is None else flags['u_rise']
    if prev_undef:
        exp = (bool(val) and eff_urise) or (not bool(val) and flags['u_fall'])
    else:
        exp = (not bool(prev) and bool(val) and flags['rise']) or (bool(prev) and not bool(val) and flags['fall'])
    env.check('edge', bool(got) == bool(exp), info=lambda: (form, flags, prev, val, got))
    env.check('edge-type', isinstance(got, bool))


def scen_nfu(env):
    kind = env.pick(['undef', 'missing', 'int', 'none', 'false'], 'prev_kind')
    data = {'value': env.int('value'), 'source': 's'}
    if kind == 'undef':
        data['previous'] = UNDEF
    elif kind == 'int':
        data['previous'] = env.int('previous')
    elif kind == 'none':
        data['previous'] = None
    elif kind == 'false':
        data['previous'] = False
    got = edzed.not_from_undef(data)
    env.check('nfu', bool(got) == (kind not in ('undef', 'missing')))
    # through a real Event: only the change from UNDEF is dropped
    circ = sync_circuit()
    sink = []
    p = SinkProbe('p', sink=sink)
    src = Settable('src', on_output=edzed.Event(p, 'e', efilter=edzed.not_from_undef))
    start_sync(circ)
    v1, v2 = env.int('v1'), env.int('v2')
    src.event('set', value=v1)
    env.check('nfu-first-dropped', len(sink) == 0)
    src.event('set', value=v2)
    changed = Not_(eq_(v1, v2))
    env.check('nfu-second', Iff_(changed, len(sink) == 1))


def scen_fanout_isolation(env):
    """'the filters of an Event run ... on the data of that one delivery': one trigger, two Events; the filters of the
    first edit their data in place / with DataEdit / replace it - the second Event (and a second filter pipeline of its
    own) still sees the original items, and the bundled filters work inside a pipeline behind an editing filter"""
    circ = sync_circuit()
    sink = []
    p1 = SinkProbe('p1', sink=sink)
    p2 = SinkProbe('p2', sink=sink)
    ctl = edzed.Input('ctl', initdef=1)
    how = env.pick(['inplace', 'dataedit', 'replace', 'ifoutput-then-permit'], 'first_filter')

    def inplace(data):
        del data['value']
        data['x'] = 1
        return True
    f1 = {'inplace': inplace, 'dataedit': edzed.DataEdit.delete('value').add(x=1),
          'replace': lambda data: {'x': 1},
          'ifoutput-then-permit': [edzed.IfOutput('ctl'), edzed.DataEdit.permit('x').add(x=1)]}[how]
    delta = env.int('delta', 0)
    src = Settable('src', on_output=[edzed.Event(p1, 'e1', efilter=f1),
                                     edzed.Event(p2, 'e2', efilter=[edzed.not_from_undef, edzed.Delta(delta)])])
    start_sync(circ)
    v1, v2 = env.int('v1'), env.int('v2')
    src.event('set', value=v1)
    src.event('set', value=v2)
    changed = bool(Not_(eq_(v1, v2)))       # forks
    got1 = [d for name, et, d in sink if name == 'p1']
    got2 = [d for name, et, d in sink if name == 'p2']
    exp1 = {'x': 1} if how in ('replace', 'ifoutput-then-permit') else None
    env.check('fanout-first', len(got1) == (2 if changed else 1) and all(
        (d == exp1) if exp1 is not None else (d.get('x') == 1 and 'value' not in d and d.get('source') == 'src'
                                              and d.get('trigger') == 'output') for d in got1), info=lambda: (how, got1))
    # second event: the change from UNDEF dropped; Delta passes its first value always
    if changed:
        env.check('fanout-second-untouched', len(got2) == 1 and set(got2[0]) == {'previous', 'value', 'source', 'trigger'}
                  and bool(And_(eq_(got2[0]['value'], v2), eq_(got2[0]['previous'], v1))) and 'x' not in got2[0],
                  info=lambda: (how, got2))
    else:
        env.check('fanout-second-untouched', got2 == [], info=lambda: got2)


def scen_delta(env, n, kind):
    delta = env.real('delta', 0) if kind == 'real' else env.int('delta', 0)
    f = edzed.Delta(delta)
    last = None
    for k in range(n):
        v = env.real(f'v{k}') if kind == 'real' else env.int(f'v{k}')
        got = f({'value': v, 'source': 's'})
        if last is None:
            exp = True
        else:
            d = last - v
            exp = Or_(d >= delta, -d >= delta)
        ok = Iff_(truthy(got), exp)
        env.check('delta-step', ok)
        if got:
            last = v
            env.note('delta-passed')
        else:
            env.note('delta-filtered')


def scen_delta_nan(env):
    """float NaN (a legal event value) after a value has passed: its distance from the last passed value is not
    'at least delta' (the comparison is false), so it is dropped and the reference value stays.  Concrete floats -
    the symbolic reals of scen_delta have no NaN."""
    nan = float('nan')
    delta = env.pick([0, 0.5, 5], 'delta')
    first = env.pick([10.0, -3], 'first')
    third = env.pick([10.1, 19.5, -3, 4.5], 'third')
    f = edzed.Delta(delta)
    sink = []
    r1 = f({'value': first})
    r2 = f({'value': nan})
    r3 = f({'value': third})
    env.note('delta-nan')
    env.check('delta-step', bool(r1) and not r2 and bool(r3) == (abs(first - third) >= delta),
              info=lambda: (delta, first, third, r1, r2, r3))


def scen_delta_induct(env, kind):
    """one step from an arbitrary 'last passed' value"""
    mk = (lambda n, lo=None: env.real(n, lo)) if kind == 'real' else (lambda n, lo=None: env.int(n, lo))
    delta = mk('delta', 0)
    f = edzed.Delta(delta)
    last = mk('last')
    assert f({'value': last})          # first value always passes -> arbitrary state
    v = mk('v')
    got = f({'value': v})
    d = last - v
    exp = Or_(d >= delta, -d >= delta)
    env.check('delta-induct', Iff_(truthy(got), exp))
    # the state afterwards is the last PASSED value: a third value is compared against it
    ref = If_(exp, v, last) if is_sym(exp) else (v if exp else last)
    w = mk('w')
    got2 = f({'value': w})
    d2 = ref - w
    env.check('delta-induct-2', Iff_(truthy(got2), Or_(d2 >= delta, -d2 >= delta)))


KEYS = ['a', 'b', 'c']


class KeyErr(Exception):
    pass


def apply_ref(op, data, ctrl_output):
    """Reference semantics of one DataEdit operation: plain dictionary operations."""
    kind = op[0]
    d = dict(data)
    if kind == 'add':
        d[op[1]] = op[2]
    elif kind == 'setdefault':
        if op[1] not in d:
            d[op[1]] = op[2]
    elif kind == 'copy':
        if op[1] not in d:
            raise KeyErr
        d[op[2]] = d[op[1]]
    elif kind == 'rename':
        if op[1] not in d:
            raise KeyErr
        # docs: "Like copy(), but the srckey item is deleted afterward" (so rename(k, k) deletes k)
        d[op[2]] = d[op[1]]
        del d[op[1]]
    elif kind == 'delete':
        for k in op[1]:
            d.pop(k, None)
    elif kind == 'permit':
        d = {k: v for k, v in d.items() if k in op[1]}
    elif kind == 'modify':
        if op[1] not in d:
            raise KeyErr
        mode = op[2]
        if mode == 'inc':
            d[op[1]] = d[op[1]] + 1
        elif mode == 'DELETE':
            del d[op[1]]
        elif mode == 'REJECT':
            return None
        elif mode == 'cond':      # reject iff value < threshold, else delete iff == threshold
            return ('cond', op[1], op[3])
    elif kind == 'add_output':
        d[op[1]] = ctrl_output
    return d


def build_edit(env, chain, first_as_class, ctrl):
    """Create the real DataEdit chain; returns the filter object."""
    de = None
    for i, op in enumerate(chain):
        base = edzed.DataEdit if (i == 0 and first_as_class) else (de if de is not None else edzed.DataEdit())
        kind = op[0]
        if kind == 'add':
            de = base.add(**{op[1]: op[2]})
        elif kind == 'setdefault':
            de = base.setdefault(**{op[1]: op[2]})
        elif kind == 'copy':
            de = base.copy(op[1], op[2])
        elif kind == 'rename':
            de = base.rename(op[1], op[2])
        elif kind == 'delete':
            de = base.delete(*op[1])
        elif kind == 'permit':
            de = base.permit(*op[1])
        elif kind == 'modify':
            mode = op[2]
            if mode == 'inc':
                fn = lambda v: v + 1
            elif mode == 'DELETE':
                fn = lambda v: edzed.DataEdit.DELETE
            elif mode == 'REJECT':
                fn = lambda v: edzed.DataEdit.REJECT
            else:
                thr = op[3]
                def fn(v, thr=thr):
                    if v < thr:
                        return edzed.DataEdit.REJECT
                    if v == thr:
                        return edzed.DataEdit.DELETE
                    return v - thr
            de = base.modify(op[1], fn)
        elif kind == 'add_output':
            de = base.add_output(op[1], ctrl)
    return de


def choose_op(env, i):
    kind = env.pick(['add', 'setdefault', 'copy', 'rename', 'delete', 'permit', 'modify', 'add_output'],
                    f'op{i}')
    if kind in ('add', 'setdefault'):
        return (kind, env.pick(KEYS, f'k{i}'), env.int(f'const{i}'))
    if kind in ('copy', 'rename'):
        src = env.pick(KEYS, f'src{i}')
        dst = env.pick(KEYS, f'dst{i}')
        return (kind, src, dst)
    if kind in ('delete', 'permit'):
        sel = env.pick([(), ('a',), ('a', 'b'), ('c', 'source'), ('a', 'b', 'c', 'source', 'value')], f'set{i}')
        return (kind, sel)
    if kind == 'modify':
        mode = env.pick(['inc', 'DELETE', 'REJECT', 'cond'], f'mode{i}')
        if mode == 'cond':
            return (kind, env.pick(KEYS, f'k{i}'), mode, env.int(f'thr{i}'))
        return (kind, env.pick(KEYS, f'k{i}'), mode)
    return (kind, env.pick(KEYS, f'k{i}'))


def scen_dataedit(env, n, first_kind=None):
    circ = sync_circuit()
    sink = []
    p = SinkProbe('p', sink=sink)
    ctrl = Settable('ctl')
    chain = []
    for i in range(n):
        if i == 0 and first_kind is not None:
            # shard by the first operation (parallelism only)
            saved = env.pick
            env.pick = lambda seq, label, _s=saved: first_kind if label == 'op0' else _s(seq, label)
            try:
                chain.append(choose_op(env, i))
            finally:
                env.pick = saved
        else:
            chain.append(choose_op(env, i))
    first_as_class = bool(env.choose(2, 'classmethod_first'))
    by_name = env.choose(2, 'ctrl_by_name')
    de = build_edit(env, chain, first_as_class, 'ctl' if by_name else ctrl)
    src = Settable('src')
    ev = edzed.Event(p, 'e', efilter=de)
    start_sync(circ)
    co = env.int('ctrl_output')
    ctrl.event('set', value=co)
    # input data: keys present by choice, symbolic values
    data = {}
    present = env.choose(8, 'present')
    for bit, k in enumerate(KEYS):
        if present >> bit & 1:
            data[k] = env.int(f'in_{k}')
    # reference
    ref = dict(data)
    ref['source'] = 'src'
    outcome = 'pass'
    try:
        for op in chain:
            r = apply_ref(op, ref, co)
            if r is None:
                outcome = 'reject'
                break
            if isinstance(r, tuple):
                _, key, thr = r
                v = ref[key]
                if v < thr:             # forks in the reference too (documented condition)
                    outcome = 'reject'
                    break
                if v == thr:
                    del ref[key]
                else:
                    ref[key] = v - thr
            else:
                ref = r
    except KeyErr:
        outcome = 'keyerror'
    try:
        ret = ev.send(src, **data)
        got = 'pass' if ret else 'reject'
    except KeyError:
        got = 'keyerror'
        ret = None
    env.obs('dataedit', chain, sorted(data), outcome, got)
    env.note('dataedit-' + outcome)
    ok = got == outcome
    if ok and outcome == 'pass':
        ok = And_(len(sink) == 1, ret is True, dict_eq(sink[0][2], ref) if sink else False)
    elif ok:
        ok = len(sink) == 0 and (ret is False or outcome == 'keyerror')
    env.check('dataedit', ok, info=lambda: (chain, data, outcome, got, sink, ref))


def scen_pipeline(env, n):
    """<= n filters mixing editing, passing and rejecting ones."""
    circ = sync_circuit()
    sink = []
    p = SinkProbe('p', sink=sink)
    src = Settable('src')
    calls = []
    filters = []
    kinds = []
    for i in range(n):
        kind = env.pick(['edit', 'pass-true', 'pass-1', 'pass-str', 'rej-false', 'rej-none', 'rej-0',
                         'sym', 'replace-empty', 'missing', 'inplace', 'userdict'], f'f{i}')
        kinds.append(kind)
        if kind == 'missing':
            continue
        cond = env.bool(f'cond{i}') if kind == 'sym' else None
        cst = env.int(f'c{i}') if kind == 'edit' else None

        def flt(data, i=i, kind=kind, cond=cond, cst=cst):
            calls.append((i, dict(data)))
            if kind == 'edit':
                return {**data, f'k{i}': cst, 'seen': data.get('seen', 0) + 1}
            if kind == 'replace-empty':
                return {}
            if kind == 'inplace':
                # docs/events.rst: filters may modify the event data in place
                data[f'ip{i}'] = i
                return True
            if kind == 'userdict':
                import collections
                return collections.UserDict({**data, f'ud{i}': i})      # a mutable mapping that is not a dict
            if kind == 'sym':
                return cond
            return {'pass-true': True, 'pass-1': 1, 'pass-str': 'x', 'rej-false': False,
                    'rej-none': None, 'rej-0': 0}[kind]
        filters.append((i, kind, flt, cond, cst))
    form = env.choose(3, 'form')
    fl = [f[2] for f in filters]
    ef = fl[0] if (form == 0 and len(fl) == 1) else (tuple(fl) if form == 1 else list(fl))
    ev = edzed.Event(p, 'e', efilter=ef if fl else None)
    start_sync(circ)
    v = env.int('value')
    ret = ev.send(src, value=v)
    # reference: left to right
    data = {'value': v, 'source': 'src'}
    exp_calls = []
    passed = True
    for i, kind, _f, cond, cst in filters:
        exp_calls.append((i, dict(data)))
        if kind == 'edit':
            data = {**data, f'k{i}': cst, 'seen': data.get('seen', 0) + 1}
        elif kind == 'replace-empty':
            data = {}
        elif kind == 'inplace':
            data = {**data, f'ip{i}': i}
        elif kind == 'userdict':
            data = {**data, f'ud{i}': i}
        elif kind == 'sym':
            if not cond:       # decided on this path already (same SymBool)
                passed = False
                break
        elif kind.startswith('rej'):
            passed = False
            break
    env.obs('pipeline', kinds, passed)
    env.note('pipeline-pass' if passed else 'pipeline-reject')
    same_calls = len(calls) == len(exp_calls) and And_(
        *[c[0] == e[0] and dict_eq(c[1], e[1]) for c, e in zip(calls, exp_calls)])
    env.check('pipeline-calls', same_calls, info=lambda: (kinds, calls, exp_calls))
    env.check('pipeline-ret', ret is passed)
    if passed:
        env.check('pipeline-data', And_(len(sink) == 1, dict_eq(sink[0][2], data) if sink else False),
                  info=lambda: (kinds, sink, data))
    else:
        env.check('pipeline-data', len(sink) == 0)


def scen_dataedit_two(env):
    """a chain with TWO add_output operations reading different blocks, a multi-item add, and two deliveries
    through the same Event/DataEdit objects with different key sets while the blocks' outputs change in between:
    every delivery is edited on its own data and reads the CURRENT outputs"""
    circ = sync_circuit()
    sink = []
    p = SinkProbe('p', sink=sink)
    ctl, ctl2 = Settable('ctl'), Settable('ctl2')
    src = Settable('src')
    swap = env.choose(2, 'swap')
    b1, b2 = (ctl, ctl2) if not swap else (ctl2, ctl)
    by_name = env.choose(2, 'by_name')
    k1, k2 = env.int('const1'), env.int('const2')
    r = lambda b: b.name if by_name else b
    de = edzed.DataEdit.add_output('a', r(b1)).add_output('b', r(b2)).add(c=k1, d=k2).copy('source', 'origin')
    tail = env.pick(['none', 'rename-value', 'delete-source', 'permit'], 'tail')
    if tail == 'rename-value':
        de = de.rename('value', 'v2')
    elif tail == 'delete-source':
        de = de.delete('source')
    elif tail == 'permit':
        de = de.permit('a', 'b', 'value', 'zzz')
    ev = edzed.Event(p, 'e', efilter=de)
    start_sync(circ)
    for rnd in range(2):
        o1, o2 = env.int(f'out1_{rnd}'), env.int(f'out2_{rnd}')
        ctl.event('set', value=o1)
        ctl2.event('set', value=o2)
        data = {'x': env.int('x'), 'value': env.int('value0')} if rnd == 0 else {'y': env.int('y'), 'value': env.int('value')}
        del sink[:]
        ret = ev.send(src, **data)
        exp = dict(data)
        exp['source'] = 'src'
        exp['a'] = b1.output
        exp['b'] = b2.output
        exp['c'], exp['d'] = k1, k2
        exp['origin'] = 'src'
        if tail == 'rename-value' and 'value' in exp:
            exp['v2'] = exp.pop('value')
        elif tail == 'delete-source':
            del exp['source']
        elif tail == 'permit':
            exp = {k: v for k, v in exp.items() if k in ('a', 'b', 'value', 'zzz')}
        env.check('dataedit', ret is True and len(sink) == 1 and dict_eq(sink[0][2], exp),
                  info=lambda: (rnd, tail, sink, exp))
    env.note('two-deliveries-two-control-blocks')


def scen_ctrl(env, rounds=3):
    """IfOutput / NotIfInitialized follow the control block's CURRENT output / initialisation state: sequential,
    combinational and inverted (_not_NAME) control blocks, given by name or as objects, the output changing
    between deliveries through the same filter objects."""
    circ = sync_circuit()
    sink = []
    p = SinkProbe('p', sink=sink)
    ctrl = Settable('ctl')
    src = Settable('src')
    by_name = env.choose(2, 'by_name')
    cb = edzed.FuncBlock('cb', func=lambda x: x).connect(ctrl)
    ev_if = edzed.Event(p, 'ifo', efilter=edzed.IfOutput('ctl' if by_name else ctrl))
    # docs/filters.rst: class NotIfInitialized
    ev_ni = edzed.Event(p, 'ini', efilter=edzed.NotIfInitialized('ctl' if by_name else ctrl))
    ev_inv = edzed.Event(p, 'inv', efilter=edzed.IfOutput('_not_ctl'))
    ev_cb = edzed.Event(p, 'cbo', efilter=edzed.IfOutput('cb' if by_name else cb))
    start_sync(circ)
    inverter = circ.findblock('_not_ctl')
    # control block not initialised yet
    v = env.int('value')
    r = ev_ni.send(src, value=v)
    env.check('ifnotinit', r is True and len(sink) == 1 and sink[0][1] == 'ini')
    r = ev_if.send(src, value=v)
    env.check('ifoutput-undef', r is False and len(sink) == 1)
    co = env.pick(['int', 'bool', 'none'], 'ctrl_kind')
    for k in range(rounds):
        if co == 'none':
            out = None if k % 2 == 0 else env.int(f'ctrl{k}')
        else:
            out = env.int(f'ctrl{k}') if co == 'int' else env.bool(f'ctrlb{k}')
        ctrl.event('set', value=out)
        inverter.eval_block()
        cb.eval_block()
        t = bool(truthy(out))           # forks: the control output is a path region
        del sink[:]
        r = ev_ni.send(src, value=v)
        env.check('ifnotinit', r is False and not sink)
        for ev, etype, want in ((ev_if, 'ifo', t), (ev_cb, 'cbo', t), (ev_inv, 'inv', not t)):
            del sink[:]
            r = ev.send(src, value=v, round=k)
            env.check('ifoutput', (r is True and len(sink) == 1 and sink[0][1] == etype) if want else (r is False and not sink),
                      info=lambda: (etype, k, out, r, sink))
            if sink:
                env.check('ifoutput-data', dict_eq(sink[0][2], {'value': v, 'source': 'src', 'round': k}))
        env.note('control-true' if t else 'control-false')


def shards(tier):
    b = BOUNDS[tier]
    out = [{'name': 'edge', 'scenario': 'scen_edge'},
           {'name': 'edge forms and object values', 'scenario': 'scen_edge_forms'},
           {'name': 'dataedit two control blocks, two deliveries', 'scenario': 'scen_dataedit_two'},
           {'name': 'not_from_undef', 'scenario': 'scen_nfu'},
           {'name': 'ctrl filters', 'scenario': 'scen_ctrl'},
           {'name': 'delta NaN', 'scenario': 'scen_delta_nan'},
           {'name': 'two events on one trigger, the first edits its data', 'scenario': 'scen_fanout_isolation'}]
    for kind in ('int', 'real'):
        out.append({'name': f'delta {kind} n={b["delta_len"]}', 'scenario': 'scen_delta',
                    'params': {'n': b['delta_len'], 'kind': kind}})
        out.append({'name': f'delta induct {kind}', 'scenario': 'scen_delta_induct', 'params': {'kind': kind}})
    for n in range(1, b['dataedit_chain'] + 1):
        for fk in ['add', 'setdefault', 'copy', 'rename', 'delete', 'permit', 'modify', 'add_output']:
            out.append({'name': f'dataedit n={n} first={fk}', 'scenario': 'scen_dataedit',
                        'params': {'n': n, 'first_kind': fk}, 'cost': 10 ** n})
    for n in range(0, b['pipeline_len'] + 1):
        out.append({'name': f'pipeline n={n}', 'scenario': 'scen_pipeline', 'params': {'n': n},
                    'cost': 5 ** n})
    return out
