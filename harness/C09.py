"""
C09 - the first error stops the simulation and is the one that gets reported.

Real code executed symbolically (virtual-time loop): Circuit.abort, run_forever (error capture and
re-raise), shutdown, is_ready, edzed.run (result collection), SBlock.event (error
classification), AddonAsync._task_monitor, ControlBlock, CBlock.eval_block / _simulate.

1..3 error sources of different kinds fire at symbolic instants (all orderings including equal
instants are path regions).  Oracle: the reported error (raised by run_forever(), held in
Circuit.error, re-raised by shutdown()) is the one of the source with the strictly smallest
instant among the fatal / cancelling ones; at a tie any of the tied ones.
"""
import asyncio
from symx.core import And_, Or_, Not_, Iff_, eq_, is_sym
from symx.edz import fresh_circuit
from symx import vloop
import edzed

PROPERTY = 'C09'
LEVEL = 'model_checking'
# the sim-* sources act from WITHIN the simulator task (while a combinational block is being evaluated):
# a control event sent by a CBlock's on_output, a handler error caught by the CBlock function that caused it
FATAL = ['handler', 'calc', 'task', 'abort', 'ctrl-abort', 'sim-ctrl-abort', 'sim-caught', 'task-returns', 'task-handler', 'nested-handler']
CANCEL = ['shutdown', 'ctrl-shutdown', 'sim-ctrl-shutdown', 'cancel']      # 'cancel' = a plain cancel() of the simulation task
TASK_KINDS = ('task', 'task-returns', 'task-handler')
HARMLESS = ['badparam', 'unknown']
SUPPORT = ['support-raises', 'support-returns']      # only meaningful under edzed.run()
KINDS = FATAL + CANCEL + HARMLESS
BOUNDS = {'quick': {'sources': 2, 'kinds': KINDS, 'instants': 'symbolic in [1, 10] s'},
          'thorough': {'sources': 3, 'kinds': KINDS, 'instants': 'symbolic in [1, 10] s'}}
OUTSIDE = ["more than 3 sources", "errors inside clean-up routines racing with the first error (C08)",
           "same-instant orders other than heapq's (at a tie every tied source is accepted)"]
STUBS = ["virtual-time loop with symbolic clock"]
ASSUMPTIONS = ["a handler error is reported as EdzedCircuitError whose __cause__ is the original exception"]
EXPECT_LABELS = {'all': ['stops-at-first', 'terminates', 'first-delivered-wins', 'first-error-reported', 'error-attr', 'shutdown-reraises', 'cancel-is-normal', 'not-ready-after',
                         'harmless-dont-stop', 'run-result', 'abort-before-start', 'nonfatal-init']}
EXPECT_NOTES = {'all': ['support-task-ends', 'tie', 'fatal-first', 'cancel-first', 'only-harmless', 'caught-handler-error-aborts']}
FLOORS = {'quick': {'paths': 300, 'checks': 1500}, 'thorough': {'paths': 3000, 'checks': 15000}}


def build(env, kinds, times, fired, caught=None):
    caught = [] if caught is None else caught
    circ = fresh_circuit()

    class PB(edzed.SBlock):
        def init_regular(self):
            self.set_output('init')

        def _event_x(self, *, value, fail=None, **_):
            if fail is not None:
                fired.append(fail)
                raise RuntimeError(f"marker-{fail}")
            self.set_output(value)
            return 'ok'

    class MT(edzed.AddonMainTask, edzed.SBlock):
        def __init__(self, *a, t, marker, how='task', **k):
            self._t, self._marker, self._how = t, marker, how
            super().__init__(*a, **k)

        def init_regular(self):
            self.set_output(0)

        async def _maintask(self):
            await asyncio.sleep(self._t)
            if self._how == 'task-handler':
                # a handler error inside a monitored block task: the handler's abort() comes first,
                # the task monitor's abort() of the same error is the later one
                self.circuit.findblock('pb2').event('x', value=1, fail=self._marker)
                return
            fired.append(self._marker)
            if self._how == 'task-returns':
                return              # a service task that ends is an error ('Unexpected task termination')
            raise KeyError(f"marker-{self._marker}")

    def nested_filter(d):
        v = d['value']
        if isinstance(v, tuple) and len(v) == 2 and v[0] == 'nested':
            return {'value': 1, 'fail': v[1]}
        return False
    # pb's handler -> on_output event -> pb3's handler raises: pb3's error is the reported one
    pb = PB('pb', on_output=edzed.Event('pb3', 'x', efilter=nested_filter))
    PB('pb3')

    def fb_func(x):
        if isinstance(x, tuple) and x[0] == 'boom':
            fired.append(x[1])
            raise ZeroDivisionError(f"marker-{x[1]}")
        return x
    edzed.FuncBlock('fb', func=fb_func).connect(pb)
    edzed.Event('_ctrl', 'shutdown')          # creates the control block

    def tagged(x, t):
        return isinstance(x, tuple) and len(x) == 2 and x[0] == t

    def ctl_filter(t):
        def flt(d):
            v = d['value']
            if tagged(v, t):
                fired.append(v[1])
                return {'source': f'marker-{v[1]}', 'error': f'marker-{v[1]}'}
            return False
        return flt
    edzed.FuncBlock('fc', func=lambda x: x,
                    on_output=[edzed.Event('_ctrl', 'abort', efilter=ctl_filter('sim-abort')),
                               edzed.Event('_ctrl', 'shutdown', efilter=ctl_filter('sim-shutdown'))]).connect(pb)
    pb2 = PB('pb2')

    def fd_func(x):
        if tagged(x, 'sim-caught'):
            try:
                pb2.event('x', value=1, fail=x[1])
            except RuntimeError:
                caught.append(x[1])       # the caller (inside the simulator task) catches it
        return 0
    edzed.FuncBlock('fd', func=fd_func).connect(pb)
    for i, k in enumerate(kinds):
        if k in TASK_KINDS:
            MT(f'mt_marker-{i}', t=times[i], marker=i, how=k, stop_timeout=1.0)
    return circ, pb


async def fire(circ, pb, kind, i, t, caught, fired, yields, ctx=None):
    await asyncio.sleep(t)
    for _ in range(yields):
        await asyncio.sleep(0)      # iteration-level offset within the same virtual instant
    try:
        if kind == 'handler':
            try:
                pb.event('x', value=1, fail=i)
            except RuntimeError:
                caught.append(i)          # the caller catches it: the simulation must stop anyway
        elif kind == 'calc':
            pb.event('x', value=('boom', i))
        elif kind == 'cancel':
            # NOT recorded in 'fired': Task.cancel() only requests the cancellation, the simulator receives the
            # CancelledError when it is next scheduled; sources firing in between are delivered earlier
            ctx['simtask'].cancel()
        elif kind == 'nested-handler':
            try:
                pb.event('x', value=('nested', i))
            except Exception:
                caught.append(i)
        elif kind == 'sim-ctrl-abort':
            pb.event('x', value=('sim-abort', i))
        elif kind == 'sim-ctrl-shutdown':
            pb.event('x', value=('sim-shutdown', i))
        elif kind == 'sim-caught':
            pb.event('x', value=('sim-caught', i))
        elif kind == 'abort':
            fired.append(i)
            circ.abort(OSError(f"marker-{i}"))
        elif kind == 'ctrl-abort':
            fired.append(i)
            circ.findblock('_ctrl').event('abort', source='h', error=f"marker-{i}")
        elif kind == 'shutdown':
            fired.append(i)
            try:
                await circ.shutdown()
            except Exception:
                pass
        elif kind == 'ctrl-shutdown':
            fired.append(i)
            circ.findblock('_ctrl').event('shutdown', source=f"marker-{i}")
        elif kind == 'support-raises':
            fired.append(i)
            raise LookupError(f"marker-{i}")
        elif kind == 'support-returns':
            fired.append(i)
            return 'finished'
        elif kind == 'badparam':
            try:
                pb.event('x')             # missing value
            except TypeError:
                caught.append(('badparam', i, circ.is_ready(), circ.error))
        elif kind == 'unknown':
            try:
                pb.event('no_such_event')
            except edzed.EdzedUnknownEvent:
                caught.append(('unknown', i, circ.is_ready(), circ.error))
    except LookupError:
        raise
    except Exception as err:
        caught.append(('unexpected', i, err))


def marker_of(err):
    txt = repr(err) + repr(getattr(err, '__cause__', None)) + repr(getattr(err, 'args', '')) + repr(getattr(err, '__notes__', ''))
    out = set()
    for part in txt.split('marker-')[1:]:
        d = ''
        for ch in part:
            if ch.isdigit():
                d += ch
            else:
                break
        if d:
            out.add(int(d))
    return out


def scen_errors(env, kinds, use_run):
    n = len(kinds)
    times = [env.real(f't{i}', 1, 10) for i in range(n)]
    fired = []          # ground truth: the order in which the sources actually delivered their error
    caught = []
    circ, pb = build(env, kinds, times, fired, caught)
    yields = [env.choose(3, f'yields{i}') if n > 1 else 0 for i in range(n)]
    res = {}

    async def main():
        loop = asyncio.get_running_loop()
        ctx = {}
        fires = [fire(circ, pb, k, i, times[i], caught, fired, yields[i], ctx) for i, k in enumerate(kinds)
                 if k not in TASK_KINDS]
        if use_run:
            async def support(coro):
                if await coro == 'finished':
                    return
                await asyncio.sleep(1000)
            try:
                r = await asyncio.wait_for(edzed.run(*[support(c) for c in fires]), 200)
                res['run'] = ('returned', r)
            except asyncio.TimeoutError:
                res['run'] = ('hung', None)
            except BaseException as err:
                res['run'] = ('raised', err)
        else:
            simtask = ctx['simtask'] = asyncio.create_task(circ.run_forever())
            tasks = [asyncio.create_task(c) for c in fires]

            async def backstop():
                await asyncio.sleep(15)
                await circ.shutdown()
            if not any(k in FATAL or k in CANCEL for k in kinds):
                tasks.append(asyncio.create_task(backstop()))
            try:
                await asyncio.wait_for(asyncio.shield(simtask), 200)
                res['sim'] = ('returned', None)
            except asyncio.TimeoutError:
                res['sim'] = ('hung', None)       # 190 virtual seconds after the last source: it never stopped
                simtask.cancel()
            except BaseException as err:
                res['sim'] = ('raised', err)
            res['t_end'] = loop.time()
            res['ready_after'] = circ.is_ready()
            await asyncio.sleep(20)           # the later sources fire after the stop
            for t in tasks:
                if not t.done():
                    t.cancel()
            try:
                await circ.shutdown()
                res['shutdown'] = ('returned', None)
            except BaseException as err:
                res['shutdown'] = ('raised', err)
        res['error'] = circ.error
        res['ready_end'] = circ.is_ready()
    vloop.run(main())
    # ---- reference --------------------------------------------------------------------------
    stoppers = [i for i, k in enumerate(kinds) if k in FATAL or k in CANCEL]
    env.check('terminates', res.get('sim', res.get('run'))[0] != 'hung' or not stoppers, info=lambda: (kinds, fired, res))
    env.check('no-unexpected', not [c for c in caught if isinstance(c, tuple) and c[0] == 'unexpected'], info=lambda: caught)
    if not stoppers:
        env.note('only-harmless')
        if not use_run:
            # nothing stops the simulation: it only ends because the harness' shutdown()
            env.check('harmless-dont-stop', res['sim'][0] == 'raised' and isinstance(res['sim'][1], asyncio.CancelledError)
                      and all(c[2] and c[3] is None for c in caught if isinstance(c, tuple)), info=lambda: (res, caught))
        return
    # the earliest stopper(s)
    first = [i for i in stoppers if all(bool(times[i] <= times[j]) for j in stoppers)]     # forks
    strictly = len(first) == 1
    if not strictly:
        env.note('tie')
    err = res['error']
    kinds_first = [kinds[i] for i in first]
    if use_run and any(k in SUPPORT for k in kinds):
        # run(): the simulator's error if there is one, otherwise the error of the first failing supporting
        # task; a supporting task that ends makes run() stop everything (a normal stop for the simulator)
        what, val = res['run']
        order = [i for i in fired]
        f0 = order[0] if order else None
        env.note('support-task-ends')
        if f0 is None:
            return
        k0 = kinds[f0]
        if k0 in FATAL:
            env.check('run-result', what == 'raised' and f0 in marker_of(val), info=lambda: (kinds, fired, res))
        elif k0 == 'support-raises':
            # the simulator is then shut down normally: the supporting task's error is what run() reports
            later_fatal = [i for i in order[1:] if kinds[i] in FATAL]
            env.check('run-result', what == 'raised' and (f0 in marker_of(val) or bool(set(later_fatal) & marker_of(val))),
                      info=lambda: (kinds, fired, res))
            if not later_fatal:
                env.check('run-support-error', isinstance(val, LookupError) and f0 in marker_of(val), info=lambda: res)
        elif k0 == 'support-returns' or k0 in CANCEL:
            later = [i for i in order[1:] if kinds[i] in FATAL or kinds[i] == 'support-raises']
            if not later:
                env.check('run-result', what == 'returned' and val is None, info=lambda: (kinds, fired, res))
        return
    if use_run:
        what, val = res['run']
        env.check('not-ready-after', not res['ready_end'], info=lambda: res)
        # run() raises the simulator's error if there is one (a cancellation is none)
        if what == 'raised' and not isinstance(err, asyncio.CancelledError):
            env.check('error-attr', val is err, info=lambda: (val, err))
        elif what == 'returned':
            env.check('error-attr', isinstance(err, asyncio.CancelledError), info=lambda: (val, err))
        if all(k in CANCEL for k in kinds_first):
            env.note('cancel-first')
            env.check('run-result', what == 'returned' and val is None, info=lambda: (kinds, res))
        elif all(k in FATAL for k in kinds_first):
            env.note('fatal-first')
            env.check('run-result', what == 'raised' and bool(marker_of(val) & set(first)), info=lambda: (kinds, first, res))
        return
    # the error delivered FIRST (instrumented ground truth, iteration-exact) is the reported one
    order = [i for i in fired if kinds[i] in FATAL or kinds[i] in CANCEL]
    if order and 'cancel' not in kinds:
        f0 = order[0]
        if kinds[f0] in CANCEL:
            env.check('first-delivered-wins', isinstance(res['error'], asyncio.CancelledError),
                      info=lambda: (kinds, fired, res['error']))
        else:
            env.check('first-delivered-wins', f0 in marker_of(res['error']),
                      info=lambda: (kinds, yields, fired, res['error'], [str(t) for t in times]))
    what, exc = res['sim']
    env.check('error-attr', exc is err or (isinstance(exc, asyncio.CancelledError) and isinstance(err, asyncio.CancelledError)),
              info=lambda: (exc, err))
    if all(k in CANCEL for k in kinds_first):
        env.note('cancel-first')
        env.check('cancel-is-normal', isinstance(err, asyncio.CancelledError) and res['shutdown'][0] == 'returned',
                  info=lambda: (kinds, first, res))
    elif all(k in FATAL for k in kinds_first):
        env.note('fatal-first')
        env.check('first-error-reported', not isinstance(err, asyncio.CancelledError) and bool(marker_of(err) & set(first)),
                  info=lambda: (kinds, first, err, [str(t) for t in times]))
        env.check('shutdown-reraises', res['shutdown'][0] == 'raised' and res['shutdown'][1] is err,
                  info=lambda: res['shutdown'])
        if any(kinds[i] in ('handler', 'sim-caught') and i in caught for i in first) and strictly:
            env.note('caught-handler-error-aborts')
    else:
        # a cancellation tied with a fatal error: either
        env.check('first-error-reported', isinstance(err, asyncio.CancelledError) or bool(marker_of(err) & set(first)),
                  info=lambda: (kinds, first, err))
    env.check('not-ready-after', not res['ready_after'] and not res['ready_end'], info=lambda: res)
    # harmless sources that fired before the stop saw a ready circuit and no error
    for c in caught:
        if isinstance(c, tuple) and c[0] in ('badparam', 'unknown'):
            i = c[1]
            if all(bool(times[i] < times[j]) for j in first):
                env.check('harmless-dont-stop', c[2] is True and c[3] is None, info=lambda: c)
    # the simulation stopped at the instant of the first stopper
    # the simulation stopped at the instant of the first stopper (clean-up takes no virtual time here)
    env.check('stops-at-first', eq_(res['t_end'], times[first[0]]), info=lambda: (kinds, str(res['t_end']), [str(t) for t in times]))


def scen_before_start(env):
    """abort() before the start makes the start fail with that error"""
    circ = fresh_circuit()

    class PB(edzed.SBlock):
        started = 0

        def start(self):
            PB.started += 1
            super().start()

        def init_regular(self):
            self.set_output(0)
    PB('pb')
    first = OSError('marker-1')
    circ.abort(first)
    circ.abort(ValueError('marker-2'))      # never replaces the first one
    res = {}

    async def main():
        try:
            await asyncio.create_task(circ.run_forever())
            res['r'] = None
        except BaseException as err:
            res['r'] = err
        try:
            await circ.shutdown()
            res['s'] = None
        except BaseException as err:
            res['s'] = err
    vloop.run(main())
    env.check('abort-before-start', res['r'] is first and circ.error is first and res['s'] is first
              and not circ.is_ready() and PB.started == 0, info=lambda: res)


def scen_error_during_init(env, kind, use_run):
    """the first error arrives while the circuit is still in its asynchronous initialisation (another block's
    init_async is pending): it stops the simulation at once and is the one reported - by run_forever(), Circuit.error,
    shutdown(), run() - a second, later error does not replace it; wait_init() raises; nothing is left running"""
    circ = fresh_circuit()
    d = env.real('init_duration', 2, 10)
    t1 = env.real('t_first', 0, 2, hi_open=True)
    t2 = env.real('t_second', 0, 12)
    log = []

    class Slow(edzed.AddonAsync, edzed.SBlock):
        async def init_async(self):
            try:
                await asyncio.sleep(d)
                self.set_output(1)
            finally:
                log.append('init_async ended')

    class PB(edzed.SBlock):
        def init_regular(self):
            self.set_output(0)

        def stop(self):
            log.append('pb stopped')
            super().stop()

        def _event_x(self, *, fail=None, **data):
            if fail is not None:
                raise RuntimeError(f'marker-{fail}')
            return 'ok'

    class MT(edzed.AddonMainTask, edzed.SBlock):
        def init_regular(self):
            self.set_output(0)

        async def _maintask(self):
            await asyncio.sleep(t1)
            raise KeyError('marker-1')
    Slow('slow', init_timeout=20.0)
    pb = PB('pb')
    if kind == 'task':
        MT('mt', stop_timeout=1.0)
    edzed.Event('_ctrl', 'abort')
    res = {}

    async def first():
        if kind == 'task':
            return
        await asyncio.sleep(t1)
        if kind == 'abort':
            circ.abort(OSError('marker-1'))
        elif kind == 'handler':
            try:
                pb.event('x', fail=1)
            except RuntimeError:
                pass                     # the caller catches it: fatal all the same
        elif kind == 'ctrl-abort':
            circ.findblock('_ctrl').event('abort', source='marker-1', error='marker-1')

    async def second():
        await asyncio.sleep(t2)
        circ.abort(ValueError('marker-2'))

    async def waiter():
        try:
            await circ.wait_init()
            res['wait_init'] = 'returned'
        except asyncio.CancelledError:
            res['wait_init'] = 'cancelled by the harness (still waiting)'
            raise
        except Exception as err:
            res['wait_init'] = err

    async def main():
        loop = asyncio.get_running_loop()
        helpers = [asyncio.create_task(c()) for c in (first, second, waiter)]
        try:
            if use_run:
                await asyncio.create_task(edzed.run())
            else:
                await asyncio.create_task(circ.run_forever())
            res['r'] = None
        except BaseException as err:
            res['r'] = err
        res['t_end'] = loop.time()
        try:
            await circ.shutdown()
            res['s'] = None
        except BaseException as err:
            res['s'] = err
        for _ in range(3):              # wait_init()'s caller resumes two loop iterations after the end of the task
            await asyncio.sleep(0)
        res['ready'] = circ.is_ready()
        for h in helpers:
            h.cancel()
        for _ in range(3):
            await asyncio.sleep(0)
        res['leftover'] = [t.get_name() for t in asyncio.all_tasks() if t is not asyncio.current_task() and not t.done()]
    vloop.run(main())
    if not bool(t1 < t2):          # forks: the second abort() is the later one on the paths judged here
        return
    env.note('error-during-async-init')
    marker = lambda e: e is not None and 'marker-1' in (str(e) + str(getattr(e, '__cause__', '')))
    env.check('first-error-reported', marker(res['r']) and marker(circ.error) and marker(res['s']), info=lambda: (kind, res, circ.error))
    env.check('stops-at-first', bool(eq_(res['t_end'], t1)), info=lambda: (res['t_end'], str(t1)))
    env.check('not-ready-after', res['ready'] is False and isinstance(res.get('wait_init'), edzed.EdzedInvalidState),
              info=lambda: res)
    env.check('terminates', 'pb stopped' in log and not res['leftover'], info=lambda: (log, res))


def scen_nonfatal_init(env, which):
    """failures of asynchronous initialisation, state restoration or clean-up are only logged"""
    circ = fresh_circuit()
    d = env.real('async_duration', 0, 5, lo_open=True)

    class PA(edzed.AddonPersistence, edzed.AddonAsync, edzed.SBlock):
        def _restore_state(self, state):
            if which == 'restore':
                raise RuntimeError('marker-restore')

        async def init_async(self):
            await asyncio.sleep(d)
            if which == 'init_async':
                raise RuntimeError('marker-async')

        def init_regular(self):
            if which == 'init_regular':
                raise RuntimeError('marker-7')
            self.set_output(1)

        def stop(self):
            super().stop()
            if which == 'stop':
                raise RuntimeError('marker-stop')

        async def stop_async(self):
            if which == 'stop_async':
                raise RuntimeError('marker-stop-async')
    pa = PA('pa', persistent=True, init_timeout=10.0, stop_timeout=10.0)
    circ.set_persistent_data({pa.key: 'saved'})
    res = {}

    async def main():
        task = asyncio.create_task(circ.run_forever())
        try:
            await circ.wait_init()
            res['init'] = True
        except edzed.EdzedInvalidState:
            res['init'] = False
        res['ready'] = circ.is_ready()
        try:
            await circ.shutdown()
            res['shutdown'] = None
        except BaseException as err:
            res['shutdown'] = err
    vloop.run(main())
    if which == 'init_regular':
        # a synchronous initialisation routine is fatal
        env.check('nonfatal-init', res['init'] is False and 7 in marker_of(circ.error) and res['shutdown'] is circ.error,
                  info=lambda: (res, circ.error))
    else:
        env.check('nonfatal-init', res['init'] is True and res['ready'] and res['shutdown'] is None
                  and isinstance(circ.error, asyncio.CancelledError), info=lambda: (which, res, circ.error))


def scen_abort_and_raise(env):
    """a routine that both calls abort() (through a failing event handler) and lets the exception
    propagate into the simulator: the error delivered FIRST (by abort) stays the reported one"""
    circ = fresh_circuit()

    class B(edzed.SBlock):
        def init_regular(self):
            self.set_output(0)

        def _event_x(self, **_):
            raise RuntimeError('marker-5')

    class A(edzed.SBlock):
        def init_regular(self):
            self.set_output(0)
            ev.send(self)          # B's handler fails: abort(EdzedCircuitError) + the RuntimeError propagates
    b = B('b')
    ev = edzed.Event(b, 'x')
    order = env.choose(2, 'order')
    A('a')
    res = {}

    async def main():
        task = asyncio.create_task(circ.run_forever())
        try:
            await task
            res['r'] = None
        except BaseException as err:
            res['r'] = err
        try:
            await circ.shutdown()
            res['s'] = None
        except BaseException as err:
            res['s'] = err
    vloop.run(main())
    err = circ.error
    env.check('first-error-reported', isinstance(err, edzed.EdzedCircuitError) and isinstance(err.__cause__, RuntimeError)
              and res['r'] is err and res['s'] is err, info=lambda: (err, res))


def shards(tier):
    _extra = [{'name': f'first error during the asynchronous initialisation: {k} run={r}', 'scenario': 'scen_error_during_init',
               'params': {'kind': k, 'use_run': r}} for k in ('abort', 'handler', 'task', 'ctrl-abort') for r in (False, True)]
    out = _extra + [{'name': 'abort before start', 'scenario': 'scen_before_start'},
                    {'name': 'abort and raise', 'scenario': 'scen_abort_and_raise'}]
    for w in ('restore', 'init_async', 'init_regular', 'stop', 'stop_async'):
        out.append({'name': f'non-fatal phase {w}', 'scenario': 'scen_nonfatal_init', 'params': {'which': w}})
    n = BOUNDS[tier]['sources']
    import itertools
    for k in KINDS:
        out.append({'name': f'1 source {k}', 'scenario': 'scen_errors', 'params': {'kinds': [k], 'use_run': False}})
    for ks in itertools.product(KINDS, repeat=2):
        out.append({'name': f'2 sources {ks}', 'scenario': 'scen_errors', 'params': {'kinds': list(ks), 'use_run': False}})
    for ks in itertools.product([k for k in FATAL + CANCEL if k != 'cancel'], repeat=2):
        out.append({'name': f'run() 2 sources {ks}', 'scenario': 'scen_errors', 'params': {'kinds': list(ks), 'use_run': True}})
    for sk in SUPPORT:
        out.append({'name': f'run() 1 source {sk}', 'scenario': 'scen_errors', 'params': {'kinds': [sk], 'use_run': True}})
        for k in [k for k in FATAL + CANCEL if k != 'cancel'] + SUPPORT:
            out.append({'name': f'run() 2 sources ({sk}, {k})', 'scenario': 'scen_errors',
                        'params': {'kinds': [sk, k], 'use_run': True}})
    if n >= 3:
        for ks in itertools.combinations_with_replacement(FATAL + CANCEL[:1] + HARMLESS[:1], 3):
            out.append({'name': f'3 sources {ks}', 'scenario': 'scen_errors', 'params': {'kinds': list(ks), 'use_run': False},
                        'cost': 10})
    return out
