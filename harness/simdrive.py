"""Hand-driven Circuit._simulate: the real coroutine stepped with send(None), no event loop."""
import edzed
from edzed import simulator
from symx import core
from symx.edz import fresh_circuit


class _Idle:
    def __await__(self):
        yield 'IDLE'


class StubQueue:
    """Circuit.sblock_queue stand-in; get() yields the marker 'IDLE' while empty."""

    def __init__(self):
        self.items = []

    def put_nowait(self, x):
        self.items.append(x)

    def get_nowait(self):
        return self.items.pop(0)

    def empty(self):
        return not self.items

    def qsize(self):
        return len(self.items)

    async def get(self):
        while not self.items:
            await _Idle()
        return self.items.pop(0)


class ChoiceSet(set):
    """set whose pop() and iteration start are solver-enumerated (every result of select_blk /
    pop that any hash order could produce is explored).  budget: number of enumerated selection
    points per simulator step; beyond it the order is the name order (stated in the bounds)."""
    budget = [10 ** 9]

    def _order(self):
        return sorted(set.__iter__(self), key=lambda b: b.name)

    def _choose(self, n, label):
        if n <= 1 or self.budget[0] <= 0:
            return 0
        self.budget[0] -= 1
        return core.cur().choose(n, label)

    def pop(self):
        items = self._order()
        x = items[self._choose(len(items), 'pop')]
        self.discard(x)
        return x

    def __iter__(self):
        items = self._order()
        k = self._choose(len(items), 'iter')
        return iter(items[k:] + items[:k])


class Driver:
    def __init__(self, choice_sets=True, order_budget=10 ** 9):
        self.choice_sets = choice_sets
        self.order_budget = order_budget
        self.circ = fresh_circuit()
        self.circ.sblock_queue = StubQueue()
        self.sim = None
        self.evals = 0

    def start(self):
        """finalize, initialise the SBlocks with the real methods, create the coroutine"""
        c = self.circ
        c._simtask = object()
        c._resolver.resolve()
        c.finalize()
        for blk in c.getblocks():
            blk.start()
        c._init_sblocks_sync_1()
        c._init_sblocks_sync_2()
        self.sim = c._simulate()

    def run_to_idle(self):
        """step the simulator until it waits for a change; returns None or the exception raised"""
        if self.choice_sets:
            simulator.set = ChoiceSet
            ChoiceSet.budget[0] = self.order_budget
        try:
            r = self.sim.send(None)
            assert r == 'IDLE', r
            return None
        except StopIteration:
            raise AssertionError("_simulate returned")
        except Exception as err:
            return err
        finally:
            if self.choice_sets and 'set' in vars(simulator):
                del simulator.set

    def close(self):
        if self.sim is not None:
            self.sim.close()


class OrderedSet(set):
    """set iterating in a scenario-chosen order: the blocks named in `front` first (in that order), the rest by
    name.  Every iteration order of a set is legitimate behaviour of the real code (it depends on hash values);
    the scenario picks the orders that matter (e.g. which of two blocks is stopped first) with env.choose."""
    front = []

    def _order(self):
        f = OrderedSet.front
        return sorted(set.__iter__(self), key=lambda b: (f.index(b.name) if b.name in f else len(f), b.name))

    def __iter__(self):
        return iter(self._order())

    def pop(self):
        x = self._order()[0]
        self.discard(x)
        return x

    def difference(self, *others):
        return OrderedSet(set.difference(self, *others))

    def intersection(self, *others):
        return OrderedSet(set.intersection(self, *others))
