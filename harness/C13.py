"""
C13 - interval specifications mean the same in every accepted notation.

Real code executed symbolically: timeinterval._Interval.__init__/_parse_range/_convert/
__contains__/_cmp_open/_cmp_closed/as_list, DateTimeInterval._cmp_open, convert_time_seq/
convert_date_seq/convert_datetime_seq, export_dt, _convert_str/_match_pattern/_name_to_month,
convert_time_str/convert_date_str, TimeDate.parse/_parse3 (weekdays), the real compiled patterns.

(a) membership / ordering / normalisation with SYMBOLIC endpoint and probe fields: the module's
    `dt` is rebound to pure-Python date/time classes carrying symbolic integers (symx/symdt.py);
    oracle: closed-form formulas over a linearised time axis;
(b) string notations: numerals are 2-digit code tokens standing for symbolic integers; the real
    regexes / str.split / strip run on the text, edzed's own int() calls (shimmed in the module)
    map the codes back; for time strings the real C parser (time.fromisoformat / strptime) decides
    acceptance and field positions on the code text and the fields are relabelled;
(c) the ASCII patterns are translated to z3 regexes and compared with grammars from the docs.
"""
import builtins
import datetime as real_dt
import re
import z3
from symx.core import And_, Or_, Not_, Iff_, If_, eq_, truthy, is_sym, SymInt, SymBool
from symx import symdt, rez3, core
from edzed.blocklib import timeinterval as ti
from edzed.blocklib import timedate
import edzed

PROPERTY = 'C13'
LEVEL = 'model_checking'
BOUNDS = {'quick': {'ranges per interval': 2, 'fields': 'all symbolic within their calendar ranges (day <= 28 when the month is symbolic)',
                    'notations': 'sequences of 1..4 / 2 / 5..7 ints; date and time strings with separators - / " - ", delimiters , ;'},
          'thorough': {'ranges per interval': 3, 'fields': 'as quick', 'notations': 'as quick + month-name table in every case/abbreviation'}}
OUTSIDE = ["the acceptance set of datetime.time.fromisoformat / strptime themselves (run for real on representative code "
           "numerals; assumed uniform in the numerals)", "Unicode month names / the non-ASCII patterns _RE_YMD and _RE_MONTH "
           "(negated Unicode classes are not translated)", "days 29-31 with a symbolic month", "ISO date-time strings with 'T' "
           "(C-level parser; covered by concrete samples only)"]
STUBS = ["timeinterval.dt and timeinterval._ATTRS rebound to symx.symdt (pure-Python date/time with symbolic fields)",
         "timeinterval.int shim mapping 2-digit code tokens to symbolic integers",
         "time.fromisoformat / datetime.strptime: real C parser on the code text, fields relabelled"]
ASSUMPTIONS = ["the stub date/time classes agree with the real ones (differential self-test in the same run: label stub-selftest)"]
EXPECT_LABELS = {'all': ['time-membership', 'date-membership', 'datetime-membership', 'sorted', 'idempotent', 'full-length',
                         'seq-length-rejected', 'date-string', 'time-string', 'datetime-string', 'lang', 'malformed', 'weekdays', 'stub-selftest',
                         'string-roundtrip']}
EXPECT_NOTES = {'all': ['time-wrapping', 'time-equal-endpoints', 'date-wrapping', 'probe-at-endpoint']}
FLOORS = {'quick': {'paths': 300, 'checks': 1000}, 'thorough': {'paths': 3000, 'checks': 10000}}


class Rebind:
    """rebinding of module globals for the duration of a path"""

    def __init__(self, codes=None):
        self.codes = codes or {}

    def __enter__(self):
        self.saved = (ti.dt, ti._ATTRS)
        ti.dt = StubDT(self.codes)
        ti._ATTRS = {**symdt.ATTRS, ti.dt.time: symdt.ATTRS[symdt.time], ti.dt.datetime: symdt.ATTRS[symdt.datetime]}
        codes = self.codes

        def _int(x=0, *a):
            if isinstance(x, SymInt):
                return x
            if isinstance(x, str) and not a and x.strip() in codes:
                return codes[x.strip()]
            return builtins.int(x, *a)
        ti.int = _int
        return self

    def __exit__(self, *exc):
        ti.dt, ti._ATTRS = self.saved
        del ti.int
        return False


class StubDT:
    """namespace standing in for the datetime module inside timeinterval"""

    def __init__(self, codes):
        c = {builtins.int(k): v for k, v in codes.items()}

        def relabel(v):
            return c.get(v, v)

        class time(symdt.time):
            @classmethod
            def fromisoformat(cls, text):
                t = real_dt.time.fromisoformat(text)        # the real parser decides
                if t.tzinfo is not None:
                    r = symdt.time(0)
                    r.tzinfo = t.tzinfo
                    return r
                return symdt.time(relabel(t.hour), relabel(t.minute), relabel(t.second), relabel(t.microsecond))

        class datetime(symdt.datetime):
            @staticmethod
            def strptime(text, fmt):
                d = real_dt.datetime.strptime(text, fmt)
                return symdt.datetime(1900, 1, 1, relabel(d.hour), relabel(d.minute), relabel(d.second), relabel(d.microsecond))

            @classmethod
            def fromisoformat(cls, text):
                d = real_dt.datetime.fromisoformat(text)
                return symdt.datetime(d.year, d.month, d.day, d.hour, d.minute, d.second, d.microsecond)
        self.time, self.date, self.datetime = time, symdt.date, datetime
        self.timezone, self.timedelta = real_dt.timezone, real_dt.timedelta


# the stub classes used for isinstance-free comparisons must be the symdt base classes
def T(h, m=0, s=0, us=0):
    return symdt.time(h, m, s, us)


def us_of(t):
    return ((t.hour * 60 + t.minute) * 60 + t.second) * 1000000 + t.microsecond


def dnum(d):
    return d.month * 32 + d.day


def dtnum(d):
    return ((((((d.year * 13 + d.month) * 32 + d.day) * 24 + d.hour) * 60 + d.minute) * 60 + d.second) * 1000000
            + d.microsecond)


def time_fields(env, name, nfields):
    f = [env.int(f'{name}_h', 0, 23)]
    if nfields >= 2:
        f.append(env.int(f'{name}_m', 0, 59))
    if nfields >= 3:
        f.append(env.int(f'{name}_s', 0, 59))
    if nfields >= 4:
        f.append(env.int(f'{name}_us', 0, 999999))
    return f


def scen_time(env, nranges):
    with Rebind():
        ranges, ref = [], []
        for i in range(nranges):
            if nranges == 1:
                na = 1 + env.choose(4, f'r{i}_a_len')
                nb = 1 + env.choose(4, f'r{i}_b_len')
            else:
                na, nb = (4, 2) if i == 0 else (2, 3)
            a, b = time_fields(env, f'r{i}a', na), time_fields(env, f'r{i}b', nb)
            ranges.append([a, b] if (nranges > 1 or env.choose(2, f'r{i}_form')) else (tuple(a), tuple(b)))
            ref.append((T(*a), T(*b)))
        iv = ti.TimeInterval(ranges if (nranges > 1 or env.choose(2, 'outer_form')) else tuple(ranges))
        p = T(*time_fields(env, 'probe', 4))
        got = p in iv
        x = us_of(p)
        exp = False
        for a, b in ref:
            lo, hi = us_of(a), us_of(b)
            exp = Or_(exp, And_(lo < hi, lo <= x, x < hi), And_(Not_(lo < hi), Or_(lo <= x, x < hi)))
            if env.possible(lo > hi):
                env.note('time-wrapping')
            if env.possible(eq_(lo, hi)):
                env.note('time-equal-endpoints')
            if env.possible(Or_(eq_(x, lo), eq_(x, hi))):
                env.note('probe-at-endpoint')
        env.check('time-membership', Iff_(got, exp), info=lambda: (ranges, p, got))
        check_normal(env, ti.TimeInterval, iv, [(us_of(a), us_of(b)) for a, b in ref], 4)


def check_normal(env, cls, iv, keys, width):
    lst = iv.as_list()
    env.check('full-length', len(lst) == len(keys) and all(len(r) == 2 and len(r[0]) == width and len(r[1]) == width for r in lst),
              info=lambda: lst)
    # sorted by (start, stop)
    conds = []
    for r1, r2 in zip(lst, lst[1:]):
        k1, k2 = lex(r1[0] + r1[1]), lex(r2[0] + r2[1])
        conds.append(Not_(symdt._lex_lt(k2, k1)))
    env.check('sorted', And_(*conds) if conds else True, info=lambda: lst)
    # feeding the normalised form back yields the same interval
    again = cls(lst).as_list()
    env.check('idempotent', lists_eq(again, lst), info=lambda: (lst, again))


def lex(x):
    return tuple(x)


def lists_eq(a, b):
    if isinstance(a, (list, tuple)) and isinstance(b, (list, tuple)):
        if len(a) != len(b):
            return False
        return And_(*[lists_eq(x, y) for x, y in zip(a, b)])
    return eq_(a, b)


def date_fields(env, name, special=True):
    k = env.choose(4, f'{name}_kind') if special else 0
    if k == 0:
        return [env.int(f'{name}_mo', 1, 12), env.int(f'{name}_d', 1, 28)]
    return [[2, 29], [12, 31], [1, 1]][k - 1]


def scen_date(env, nranges):
    with Rebind():
        ranges, ref = [], []
        for i in range(nranges):
            sp = nranges == 1
            a = date_fields(env, f'r{i}a', sp)
            single = env.choose(3, f'r{i}_single') == 2
            if single:
                ranges.append([a])
                ref.append((a, a))
            else:
                b = date_fields(env, f'r{i}b', sp)
                ranges.append([a, b])
                ref.append((a, b))
        iv = ti.DateInterval(ranges)
        pf = date_fields(env, 'probe', nranges == 1)
        p = ti.convert_date_seq(pf)
        got = p in iv
        x = pf[0] * 32 + pf[1]
        exp = False
        for a, b in ref:
            lo, hi = a[0] * 32 + a[1], b[0] * 32 + b[1]
            exp = Or_(exp, And_(lo <= hi, lo <= x, x <= hi), And_(lo > hi, Or_(lo <= x, x <= hi)))
            if env.possible(lo > hi):
                env.note('date-wrapping')
            if env.possible(Or_(eq_(x, lo), eq_(x, hi))):
                env.note('probe-at-endpoint')
        env.check('date-membership', Iff_(got, exp), info=lambda: (ranges, pf, got))
        check_normal(env, ti.DateInterval, iv, ref, 2)


def dt_fields(env, name, n):
    f = [env.int(f'{name}_y', 2000, 2100), env.int(f'{name}_mo', 1, 12), env.int(f'{name}_d', 1, 28),
         env.int(f'{name}_h', 0, 23), env.int(f'{name}_mi', 0, 59)]
    if n >= 6:
        f.append(env.int(f'{name}_s', 0, 59))
    if n >= 7:
        f.append(env.int(f'{name}_us', 0, 999999))
    return f


def scen_datetime(env, nranges):
    with Rebind():
        ranges, ref = [], []
        for i in range(nranges):
            na = 5 + env.choose(3, f'r{i}_a_len')
            a, b = dt_fields(env, f'r{i}a', na), dt_fields(env, f'r{i}b', 5)
            ranges.append([a, b])
            ref.append((symdt.datetime(*a), symdt.datetime(*b)))
        iv = ti.DateTimeInterval(ranges)
        p = symdt.datetime(*dt_fields(env, 'probe', 7))
        got = p in iv
        x = dtnum(p)
        exp = False
        for a, b in ref:
            exp = Or_(exp, And_(dtnum(a) <= x, x < dtnum(b)))      # never wraps
        env.check('datetime-membership', Iff_(got, exp), info=lambda: (ranges, got))
        check_normal(env, ti.DateTimeInterval, iv, ref, 7)


def scen_seq_lengths(env):
    with Rebind():
        v = env.int('v', 1, 12)
        for cls, good in ((ti.TimeInterval, {1, 2, 3, 4}), (ti.DateInterval, {2}), (ti.DateTimeInterval, {5, 6, 7})):
            for n in range(0, 9):
                seq = [2024, v, v, v, v, v, v, v][:n] if cls is ti.DateTimeInterval else [v] * n
                try:
                    cls([[seq, seq]])
                    ok = n in good
                except ValueError:
                    ok = n not in good
                env.check('seq-length-rejected', ok, info=lambda: (cls.__name__, n))
        for bad in (5, None, 3.5, {'a': 1}):
            try:
                ti.TimeInterval(bad)
                env.check('type-rejected', False)
            except TypeError:
                env.check('type-rejected', True)
        for rng in ([[1, 2], [3, 4], [5, 6]], [], 7):
            try:
                ti.TimeInterval([rng])
                env.check('range-shape-rejected', False, info=lambda: rng)
            except (ValueError, TypeError):
                env.check('range-shape-rejected', True)


MONTHS = ti.MONTH_NAMES


def scen_date_strings(env, shape, months=(1, 5, 9, 12), sep=None):
    months = list(months)
    """date strings with code tokens for the day (and month in the --MM-DD form)"""
    d1, d2 = env.int('d1', 1, 28), env.int('d2', 1, 28)
    codes = {'41': d1, '42': d2}
    mo1 = env.pick(months, 'mo1')
    mo2 = env.pick(months[:2] + months[-1:], 'mo2')
    m_sym = None
    if shape == 'iso':
        m1, m2 = env.int('m1', 1, 12), env.int('m2', 1, 12)
        codes.update({'51': m1, '52': m2})
        dash = env.pick(['-', ''], 'dash')
        e1, e2 = f'--51{dash}41', f'--52{dash}42'
        exp = [[m1, d1], [m2, d2]]
    else:
        case = env.choose(3, 'case')
        abbr = env.pick([3, 4, 99], 'abbr')

        def mname(mo, tag):
            full = MONTHS[mo]
            txt = full[:max(3, min(abbr, len(full)))]
            return txt.lower() if case == 0 else (txt.upper() if case == 1 else txt)
        n1, n2 = mname(mo1, 1), mname(mo2, 2)
        if shape == 'day-month':
            e1, e2 = f'41 {n1}', f'42. {n2}'
        elif shape == 'month-day':
            e1, e2 = f'{n1} 41', f'{n2}. 42.'
        else:
            e1, e2 = f'  {n1}  41 ', f'42   {n2}'
        exp = [[mo1, d1], [mo2, d2]]
    sep = sep or env.pick(['-', ' - ', '/'], 'sep')
    if shape == 'iso' and sep == '-':
        sep = '/'
    tail = env.pick(['', ';', ','], 'tail')
    s = e1 + sep + e2 + tail
    with Rebind(codes):
        try:
            iv = ti.DateInterval(s)
            got = iv.as_list()
            err = None
        except ValueError as e:
            got, err = None, e
        env.check('date-string', err is None and bool(env.holds(lists_eq(got, [[exp[0], exp[1]]]))), info=lambda: (s, got, exp, err))
        # same interval as the sequence form, for a symbolic probe date
        if err is None:
            ivs = ti.DateInterval([exp])
            pm, pd = env.int('pm', 1, 12), env.int('pd', 1, 28)
            p = ti.convert_date_seq([pm, pd])
            env.check('date-string-same-set', Iff_(p in iv, p in ivs), info=lambda: s)
        # single date and two ranges
        s2 = f'{e1}{";" if ";" in tail or not tail else ","} {e2}{sep}{e2}'
        if shape != 'iso' or True:
            try:
                iv2 = ti.DateInterval(s2)
                l2 = iv2.as_list()
                ok = len(l2) == 2
            except ValueError as e:
                ok = False
            env.check('date-string-multi', ok, info=lambda: s2)


def scen_time_strings(env, shape):
    """time strings: real parser on code numerals, fields relabelled"""
    H1, M1, S1 = env.int('H1', 0, 23), env.int('M1', 0, 59), env.int('S1', 0, 59)
    H2, M2 = env.int('H2', 0, 23), env.int('M2', 0, 59)
    U1 = env.int('U1', 0, 999999)
    codes = {'11': H1, '12': H2, '31': M1, '32': M2, '41': S1, '123456': U1}
    mark = env.pick(['.', ','], 'mark')
    if shape == 'hm':
        e1, exp1 = '11:31', [H1, M1, 0, 0]
    elif shape == 'hms':
        e1, exp1 = '11:31:41', [H1, M1, S1, 0]
    else:
        e1, exp1 = f'11:31:41{mark}123456', [H1, M1, S1, U1]
    e2, exp2 = '12:32', [H2, M2, 0, 0]
    sep = env.pick(['-', ' - ', '/', '  -  '], 'sep')
    tail = env.pick(['', ';', ','], 'tail') if mark == '.' or shape != 'frac' else env.pick(['', ';'], 'tail')
    s = f'{e1}{sep}{e2}{tail}'
    if shape == 'frac' and mark == ',' and tail == '':
        s = s + ';'          # a decimal comma needs the ';' delimiter (documented)
    with Rebind(codes):
        try:
            iv = ti.TimeInterval(s)
            got, err = iv.as_list(), None
        except ValueError as e:
            got, err = None, e
        env.check('time-string', err is None and bool(env.holds(lists_eq(got, [[exp1, exp2]]))),
                  info=lambda: (s, got, [exp1, exp2], err))
        if err is None:
            seqiv = ti.TimeInterval([[exp1, exp2]])
            p = T(*time_fields(env, 'probe', 4))
            env.check('time-string-same-set', Iff_(p in iv, p in seqiv), info=lambda: s)


def scen_datetime_strings(env, mo):
    """traditional date-time strings: month name in every case / abbreviation, symbolic day, year, time"""
    D, Y = env.int('D', 1, 28), env.int('Y', 2000, 2100)
    H, Mi = env.int('H', 0, 23), env.int('Mi', 0, 59)
    D2, H2 = env.int('D2', 1, 28), env.int('H2', 0, 23)
    codes = {'41': D, '42': D2, '2041': Y, '11': H, '12': H2, '31': Mi}
    full = MONTHS[mo]
    abbr = env.pick(sorted({3, 4, len(full)}), 'abbr')
    txt = full[:max(3, min(abbr, len(full)))]
    case = env.choose(4, 'case')
    name = [txt.lower(), txt.upper(), txt, txt[0].lower() + txt[1:].upper()][case]
    layout = env.choose(4, 'layout')
    e1 = [f'41 {name} 2041 11:31', f'{name} 41 2041 11:31', f'2041-{name}-41 11:31', f'11:31 41. {name}. 2041'][layout]
    e2 = [f'42 {name} 2041 12:31', f'{name} 42 2041 12:31', f'2041-{name}-42 12:31', f'12:31 42. {name}. 2041'][layout]
    sep = env.pick([' / ', ' - ', '/'], 'sep')
    s = e1 + sep + e2
    exp = [[[Y, mo, D, H, Mi, 0, 0], [Y, mo, D2, H2, Mi, 0, 0]]]
    with Rebind(codes):
        try:
            iv = ti.DateTimeInterval(s)
            got, err = iv.as_list(), None
        except ValueError as e:
            got, err = None, e
        env.check('datetime-string', err is None and bool(env.holds(lists_eq(got, exp))), info=lambda: (s, got, err))
        # also as a sequence of two strings
        try:
            got2 = ti.DateTimeInterval([[e1, e2]]).as_list()
            env.check('datetime-string', bool(env.holds(lists_eq(got2, exp))), info=lambda: (e1, e2, got2))
        except ValueError as e:
            env.check('datetime-string', False, info=lambda: (e1, e2, e))


ROUNDTRIP = [
    (ti.TimeInterval, '1:2 - 3:04:05, 23:59:59.5-0:0', None),
    (ti.TimeInterval, '10:00-10:30; 7:5:3,25 / 8:00;', None),
    (ti.DateInterval, 'Dec 24 - Jan 6; 1.may; feb 29', None),
    (ti.DateInterval, '--1224/--0106, 15 March-15 apr', None),
    (ti.DateTimeInterval, '2024-02-29 12:00 / 2024-12-31T23:59:59; 1 Jan 2025 0:00 - 2025-01-02 1:30:00.25', None),
    (ti.DateTimeInterval, '2001-april-01 10:20/2001-04-01T10:30', None),
]


def scen_roundtrip(env):
    """string rendering and numeric form fed back yield the same interval (real datetime, concrete)"""
    for cls, s, _ in ROUNDTRIP:
        iv = cls(s)
        lst = iv.as_list()
        same = cls(lst).as_list() == lst and cls(iv.as_string()).as_list() == lst and cls(tuple(map(tuple, lst))).as_list() == lst
        env.check('string-roundtrip', same and lst == sorted(lst), info=lambda: (s, lst, iv.as_string()))


GRID = {
    'time': [[0, 0], [7, 5, 3], [12, 0, 0, 500000], [23, 59, 59, 999999]],
    'date': [[1, 1], [2, 29], [6, 15], [12, 31]],
    'datetime': [[2024, 1, 1, 0, 0], [2024, 2, 29, 12, 30, 15], [2030, 12, 31, 23, 59, 59, 250000]],
}


RUN_TEMPLATES = [
    (ti.DateTimeInterval, 'Jan 1 2024 10:00 / Feb 1 2024 10:00'),
    (ti.DateTimeInterval, '2024-03-05 7:30 / 2024-03-06T12:45:10'),
    (ti.DateTimeInterval, '12. dec 2030 23:59:59 - 2031-january-02 0:00'),
    (ti.DateInterval, 'Jan 1 - Feb 12'),
    (ti.DateInterval, '--1224 / --01-06'),
    (ti.DateInterval, '1.may; 25 Dec'),
    (ti.TimeInterval, '1:02 - 3:04:05'),
]


def scen_digit_runs(env):
    """'malformed input is rejected with an error instead of being misread': one extra digit inserted next to a numeral
    of a valid string (so that a number gets one digit too long - or becomes another valid number).  Either the string is
    refused, or every maximal run of digits in it is read as ONE number: it shows up as a field of the result.  A run
    split in two ('12024' read as the year 1202 and the day 4, '110:30' as day 1 and 10:30) is a misreading."""
    import collections
    cls, text = RUN_TEMPLATES[env.choose(len(RUN_TEMPLATES), 'template')]
    positions = [i for i in range(len(text) + 1)
                 if (i < len(text) and text[i].isdigit()) or (i > 0 and text[i - 1].isdigit())]
    joins = [i for i in range(1, len(text) - 1) if text[i] == ' ' and text[i - 1].isdigit() and text[i + 1].isdigit()]
    if joins and env.choose(2, 'mutation'):
        # a separating blank between two numerals is missing: the two numbers form one run of digits
        pos = joins[env.choose(len(joins), 'join')]
        bad = text[:pos] + text[pos + 1:]
        env.note('numerals-joined')
    else:
        pos = positions[env.choose(len(positions), 'position')]
        digit = env.pick(['1', '0', '9'], 'digit')
        bad = text[:pos] + digit + text[pos:]
    try:
        iv = cls(bad)
    except ValueError:
        env.note('extra-digit-refused')
        env.check('digit-runs', True)
        return
    env.note('extra-digit-accepted')
    fields = collections.Counter()
    for rng in iv.as_list():
        for endpoint in rng:
            fields.update(endpoint)
    runs = [int(r) for r in re.findall(r'[0-9]+', bad)]
    # a fraction of a second is stored in microseconds; '--MMDD' holds two numbers in one run
    def known(r, raw):
        return fields[r] > 0 or (len(raw) == 4 and cls is ti.DateInterval and fields[int(raw[:2])] and fields[int(raw[2:])])
    misread = [raw for raw in re.findall(r'[0-9]+', bad) if not known(int(raw), raw)]
    env.check('digit-runs', not misread, info=lambda: (bad, iv.as_list(), misread))


def scen_iso_basic(env):
    """ISO 8601 basic / extended / 'T'-prefixed notations of the same moments (time, date-time, --MMDD dates) denote the
    same interval as the traditional string and the integer sequences (real datetime parser; numerals from a grid)"""
    h1, h2 = env.pick([0, 7, 10, 23], 'h1'), env.pick([0, 9, 11, 23], 'h2')
    m1, m2 = env.pick([0, 5, 59], 'm1'), env.pick([0, 30], 'm2')
    sec = env.pick([None, 0, 7], 'sec')
    t = lambda h, m: [h, m] + ([sec] if sec is not None else [])
    ext = lambda h, m: f'{h:02d}:{m:02d}' + (f':{sec:02d}' if sec is not None else '')
    bas = lambda h, m: f'{h:02d}{m:02d}' + (f'{sec:02d}' if sec is not None else '')
    want = ti.TimeInterval([[t(h1, m1), t(h2, m2)]]).as_list()
    forms = [f'{ext(h1, m1)}-{ext(h2, m2)}', f'{bas(h1, m1)}/{bas(h2, m2)}', f'T{ext(h1, m1)} - T{ext(h2, m2)}',
             f'{bas(h1, m1)} - {ext(h2, m2)}']
    for f in forms:
        try:
            got = ti.TimeInterval(f).as_list()
        except Exception as err:
            got = err
        env.check('iso-notations', got == want, info=lambda: (f, got, want))
    mo, d = env.pick([1, 2, 12], 'month'), env.pick([1, 28, 29], 'day')
    y = 2024
    wantdt = ti.DateTimeInterval([[[y, mo, d] + t(h1, m1), [y + 1, mo, min(d, 28)] + t(h2, m2)]]).as_list()
    formsdt = [f'{y}-{mo:02d}-{d:02d}T{ext(h1, m1)}/{y + 1}-{mo:02d}-{min(d, 28):02d}T{ext(h2, m2)}',
               f'{y}{mo:02d}{d:02d}T{bas(h1, m1)}/{y + 1}{mo:02d}{min(d, 28):02d}T{bas(h2, m2)}',
               f'{y}-{mo:02d}-{d:02d} {ext(h1, m1)} - {y + 1}-{mo:02d}-{min(d, 28):02d} {ext(h2, m2)}',
               f'{d} {ti.MONTH_NAMES[mo][:3]} {y} {ext(h1, m1)} / {ti.MONTH_NAMES[mo]} {min(d, 28)}. {y + 1} {ext(h2, m2)}']
    for f in formsdt:
        try:
            got = ti.DateTimeInterval(f).as_list()
        except Exception as err:
            got = err
        env.check('iso-notations', got == wantdt, info=lambda: (f, got, wantdt))
    wantd = ti.DateInterval([[[mo, d], [12, 31]]]).as_list()
    for f in (f'--{mo:02d}{d:02d}/--1231', f'--{mo:02d}-{d:02d} - --12-31', f'{d} {ti.MONTH_NAMES[mo][:4]} - dec 31', f'{ti.MONTH_NAMES[mo]} {d}. / 31.DEC'):
        try:
            got = ti.DateInterval(f).as_list()
        except Exception as err:
            got = err
        env.check('iso-notations', got == wantd, info=lambda: (f, got, wantd))


def scen_roundtrip_grid(env, kind):
    """'feeding that form or the string rendering back yields the same interval': one or two ranges whose endpoints the
    solver draws from a grid (equal endpoints included: the whole day / a single date / an empty date-time range),
    rendered with as_string() / str() and as_list() and parsed again (real datetime classes, concrete per path)"""
    cls = {'time': ti.TimeInterval, 'date': ti.DateInterval, 'datetime': ti.DateTimeInterval}[kind]
    G = GRID[kind]
    nr = 1 + env.choose(2, 'nranges')
    spec = []
    for r in range(nr):
        a = G[env.choose(len(G), f'start{r}')]
        b = G[env.choose(len(G), f'stop{r}')]
        if a == b:
            env.note('roundtrip-equal-endpoints')
        spec.append([a, b])
    iv = cls(spec)
    lst = iv.as_list()
    text = iv.as_string()
    try:
        back = cls(text)
        ok = back.as_list() == lst
    except Exception as err:
        ok = False
        back = err
    env.check('string-roundtrip', ok, info=lambda: (spec, text, back))
    env.check('string-roundtrip', cls(lst).as_list() == lst and cls(lst).as_string() == text, info=lambda: (spec, lst))
    # str() / repr() show the same rendering inside ClassName('...')
    inner = str(iv)[len(cls.__qualname__) + 2:-2]
    env.check('string-roundtrip', inner == text and repr(iv).endswith(f"{cls.__qualname__}('{text}')"), info=lambda: (str(iv), text))
    # membership is unchanged by the round trip
    if not isinstance(back, Exception):
        probes = {'time': [real_dt.time(0, 0), real_dt.time(7, 5, 3), real_dt.time(12, 0, 0, 499999), real_dt.time(23, 59, 59, 999999), real_dt.time(9, 9)],
                  'date': [real_dt.date(2024, 1, 1), real_dt.date(2024, 2, 29), real_dt.date(2023, 6, 15), real_dt.date(2023, 12, 31), real_dt.date(2023, 3, 3)],
                  'datetime': [real_dt.datetime(2024, 1, 1), real_dt.datetime(2024, 2, 29, 12, 30, 15), real_dt.datetime(2025, 5, 5),
                               real_dt.datetime(2030, 12, 31, 23, 59, 59, 250000)]}[kind]
        env.check('string-roundtrip', all((x in iv) == (x in back) for x in probes), info=lambda: (spec, text))


MALFORMED = [
    (ti.TimeInterval, ['25:00-1:00', '10:60-11:00', '10:00', '10:00-11:00-12:00', 'abc', '10:00 - ', '1:2:3:4-5:00',
                       '10:00-11:00 x', '10:00/11:00/12:00', '10:00+01:00-11:00']),
    (ti.DateInterval, ['32 Jan', 'Feb 30', 'Foo 1', '1 1', 'Jan', '13', '--1301', 'Ja 5', '1 Jan 2 Feb', 'Jan 1 - Feb 2 - Mar 3',
                       '--0101x', 'Jan 1st']),
    (ti.DateTimeInterval, ['2024-01-01', '2024-01-01 10:00', '10:00 - 11:00', '2024-13-01 10:00/2024-12-01 10:00',
                           '1 Jan 10:00 / 2 Jan 2024 10:00', '2024-02-30T10:00/2024-03-01T10:00', 'Jan 1 2024 10:00 Z / Jan 2 2024 10:00']),
]


def scen_malformed(env):
    for cls, items in MALFORMED:
        for s in items:
            try:
                r = cls(s)
                env.check('malformed', False, info=lambda: (cls.__name__, s, r.as_list()))
            except (ValueError, TypeError):
                env.check('malformed', True)


def scen_weekdays(env):
    n = env.choose(4, 'n')
    days = [env.choose(9, f'w{i}') for i in range(n)]
    form = env.choose(2, 'as_string')
    spec = ''.join(str(d) for d in days) if form else list(days)
    if form and n == 0:
        spec = ' '
    valid = all(0 <= d <= 7 for d in days)
    try:
        res = timedate.TimeDate.parse(None, None, spec)
        env.check('weekdays', valid and res['weekdays'] == sorted({7 if d == 0 else d for d in days})
                  and res['times'] is None and res['dates'] is None, info=lambda: (spec, res))
    except ValueError:
        env.check('weekdays', not valid, info=lambda: spec)


SPEC = {
    '_RE_TIME': r'[0-9]{1,2}:[0-9]{1,2}(?::[0-9]{1,2})?(?:[.,][0-9]+)?',
    '_RE_ISO_DM': r'--[0-9]{2}-?[0-9]{2}',
    '_RE_DAY': r'[0-9]{1,2}[.]?',
    '_RE_YEAR': r'[0-9]{4}',
}


def scen_lang(env, name):
    impl = getattr(ti, name)
    spec = re.compile(SPEC[name], re.ASCII)
    s = env.str('s')
    if env.symbolic:
        a = SymBool(z3.InRe(s.z, rez3.to_z3(impl)[0]))
        b = SymBool(z3.InRe(s.z, rez3.to_z3(spec)[0]))
    else:
        a, b = impl.fullmatch(s) is not None, spec.fullmatch(s) is not None
    env.check('lang', Iff_(a, b), info=lambda: (name, s))


def scen_stub_selftest(env):
    """differential test of the stub classes against the real datetime classes (concrete grid)"""
    vals_t = [(0, 0, 0, 0), (23, 59, 59, 999999), (10, 30, 0, 0), (10, 30, 0, 1), (10, 29, 59, 999999), (7, 5, 3, 250000)]
    ok = True
    for a in vals_t:
        for b in vals_t:
            ra, rb, sa, sb = real_dt.time(*a), real_dt.time(*b), symdt.time(*a), symdt.time(*b)
            ok = ok and (ra < rb) == bool(sa < sb) and (ra <= rb) == bool(sa <= sb) and (ra == rb) == bool(sa == sb) \
                and (ra > rb) == bool(sa > sb) and (ra >= rb) == bool(sa >= sb)
    vals_d = [(404, 1, 1), (404, 2, 29), (404, 12, 31), (404, 6, 15), (2024, 2, 28)]
    for a in vals_d:
        for b in vals_d:
            ra, rb, sa, sb = real_dt.date(*a), real_dt.date(*b), symdt.date(*a), symdt.date(*b)
            ok = ok and (ra < rb) == bool(sa < sb) and (ra <= rb) == bool(sa <= sb) and (ra == rb) == bool(sa == sb)
    for bad in ((24, 0), (0, 60), (0, 0, 60), (0, 0, 0, 1000000), (-1, 0)):
        for cls in (real_dt.time, symdt.time):
            try:
                cls(*bad)
                ok = False
            except ValueError:
                pass
    for bad in ((404, 2, 30), (404, 13, 1), (404, 0, 1), (2023, 2, 29), (404, 4, 31)):
        for cls in (real_dt.date, symdt.date):
            try:
                cls(*bad)
                ok = False
            except ValueError:
                pass
    # the real interval code gives the same answers with real and stub classes on a concrete grid
    specs = [[[10, 0], [10, 30]], [[22], [6]], [[5, 5], [5, 5]]]
    for sp in specs:
        real_iv = ti.TimeInterval([sp])
        real_list = real_iv.as_list()
        real_in = [real_dt.time(*pt) in real_iv for pt in vals_t]
        with Rebind():
            stub_iv = ti.TimeInterval([sp])
            for pt, r_in in zip(vals_t, real_in):
                ok = ok and r_in == bool(symdt.time(*pt) in stub_iv)
            ok = ok and stub_iv.as_list() == real_list
    env.check('stub-selftest', ok)


def shards(tier):
    n = BOUNDS[tier]['ranges per interval']
    out = [{'name': 'stub selftest', 'scenario': 'scen_stub_selftest'},
           {'name': 'sequence lengths', 'scenario': 'scen_seq_lengths'},
           {'name': 'malformed', 'scenario': 'scen_malformed'},
           {'name': 'roundtrip', 'scenario': 'scen_roundtrip'},
           {'name': 'extra digit next to a numeral', 'scenario': 'scen_digit_runs'},
           {'name': 'ISO basic / extended / traditional notations', 'scenario': 'scen_iso_basic'},
           {'name': 'roundtrip grid time', 'scenario': 'scen_roundtrip_grid', 'params': {'kind': 'time'}},
           {'name': 'roundtrip grid date', 'scenario': 'scen_roundtrip_grid', 'params': {'kind': 'date'}},
           {'name': 'roundtrip grid datetime', 'scenario': 'scen_roundtrip_grid', 'params': {'kind': 'datetime'}},
           {'name': 'weekdays', 'scenario': 'scen_weekdays'}]
    for k in range(1, n + 1):
        out.append({'name': f'time membership {k} ranges', 'scenario': 'scen_time', 'params': {'nranges': k}, 'cost': 10 ** k})
        out.append({'name': f'date membership {k} ranges', 'scenario': 'scen_date', 'params': {'nranges': k}, 'cost': 10 ** k})
    out.append({'name': 'datetime membership 1 range', 'scenario': 'scen_datetime', 'params': {'nranges': 1}})
    if tier == 'thorough':
        out.append({'name': 'datetime membership 2 ranges', 'scenario': 'scen_datetime', 'params': {'nranges': 2}, 'cost': 100})
    for shape in ('day-month', 'month-day', 'spaces', 'iso'):
        for sep in ('-', ' - ', '/'):
            if shape == 'iso' and sep == '-':
                continue
            out.append({'name': f'date strings {shape} sep={sep!r}', 'scenario': 'scen_date_strings',
                        'params': {'shape': shape, 'sep': sep,
                                   'months': [1, 5, 9, 12] if tier == 'quick' else list(range(1, 13))}, 'cost': 50})
    for mo in range(1, 13):
        out.append({'name': f'datetime strings month={mo}', 'scenario': 'scen_datetime_strings', 'params': {'mo': mo}})
    for shape in ('hm', 'hms', 'frac'):
        out.append({'name': f'time strings {shape}', 'scenario': 'scen_time_strings', 'params': {'shape': shape}})
    for name in SPEC:
        out.append({'name': f'lang {name}', 'scenario': 'scen_lang', 'params': {'name': name}})
    return out
